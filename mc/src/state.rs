//! Observation of a cache through the public API, the pointer-validating
//! structure walker (stage 1: pure arithmetic on the hook's dump), and the
//! canonical state key (DESIGN.md 3.4, 3.6).

use crate::types::*;
use lru_mem::VerifDump;

#[derive(Clone, PartialEq, Eq, Debug)]
pub struct EObs {
    pub id: u32,
    pub kheap: usize,
    pub kserial: u64,
    pub vheap: usize,
    pub vserial: u64,
    pub kaddr: usize,
    pub vaddr: usize,
}

#[derive(Clone, PartialEq, Eq, Debug)]
pub struct Obs {
    pub limit: usize,
    pub cap: usize,
    pub len: usize,
    pub cur: usize,
    pub is_empty: bool,
    /// LRU -> MRU as reported by iter()
    pub entries: Vec<EObs>,
    /// iter() produced more than the guard allows (only possible when the
    /// walker did not validate the structure first)
    pub overrun: bool,
}

impl Obs {
    pub fn sum(&self, e: usize) -> usize {
        usize::try_from(self.entries.iter().map(|x| (e + x.kheap + x.vheap) as u128).sum::<u128>()).unwrap_or(usize::MAX)
    }
    pub fn pos(&self, id: u32) -> Option<usize> {
        self.entries.iter().position(|x| x.id == id)
    }
    pub fn ids(&self) -> Vec<u32> {
        self.entries.iter().map(|x| x.id).collect()
    }
}

/// Observes through the public API only. `guard` bounds the traversal.
pub fn observe(c: &Cache, guard: usize) -> Obs {
    let mut entries = Vec::new();
    let mut overrun = false;
    for (k, v) in c.iter() {
        if entries.len() >= guard {
            overrun = true;
            break;
        }
        check_live(k.serial, true, "key yielded by iter()");
        check_live(v.serial, false, "value yielded by iter()");
        entries.push(EObs {
            id: k.id.0,
            kheap: k.heap,
            kserial: k.serial,
            vheap: v.heap,
            vserial: v.serial,
            kaddr: k as *const TKey as usize,
            vaddr: v as *const TVal as usize,
        });
    }
    Obs {
        limit: c.max_size(),
        cap: c.capacity(),
        len: c.len(),
        cur: c.current_size(),
        is_empty: c.is_empty(),
        entries,
        overrun,
    }
}

// ---------------------------------------------------------------------------
// Walker stage 1
// ---------------------------------------------------------------------------

pub const SEAL: i32 = -1;

#[derive(Clone, Debug)]
pub struct Walk {
    /// bucket indices LRU -> MRU
    pub order: Vec<u32>,
    /// Σ recorded sizes
    pub recorded_sum: usize,
}

fn is_full(c: u8) -> bool {
    c & 0x80 == 0
}

/// Maps an address to a link target: Ok(SEAL) / Ok(bucket index) / Err(why).
fn resolve(d: &VerifDump, addr: usize) -> Result<i32, String> {
    if addr == d.seal {
        return Ok(SEAL);
    }
    if d.alloc_size == 0 {
        return Err(format!("link {addr:#x} but the table has no allocation"));
    }
    let lo = d.data_end.wrapping_sub(d.buckets * d.stride);
    if addr < lo || addr >= d.data_end {
        return Err(format!(
            "link {addr:#x} points outside the current table's bucket array [{lo:#x},{:#x}) (stale pointer)",
            d.data_end
        ));
    }
    let off = d.data_end - addr;
    if off % d.stride != 0 {
        return Err(format!("link {addr:#x} is not bucket-aligned"));
    }
    let idx = off / d.stride - 1;
    if idx >= d.buckets || !is_full(d.ctrl[idx]) {
        return Err(format!("link {addr:#x} points to bucket {idx}, which is not occupied"));
    }
    Ok(idx as i32)
}

/// Pure arithmetic validation of the list/table structure. Never dereferences.
pub fn walk(d: &VerifDump) -> Result<Walk, String> {
    let nfull = d.ctrl.iter().filter(|c| is_full(**c)).count();
    if d.alloc_size == 0 {
        // empty singleton: control bytes are static EMPTY
        if d.items != 0 || !d.full.is_empty() {
            return Err("unallocated table reports items".into());
        }
    } else if nfull != d.items || d.full.len() != d.items {
        return Err(format!(
            "table bookkeeping: {} FULL control bytes, items = {}, iterated = {}",
            nfull,
            d.items,
            d.full.len()
        ));
    }
    for b in &d.full {
        if d.data_end - (b.index + 1) * d.stride != b.addr {
            return Err(format!("bucket {} has unexpected address", b.index));
        }
    }
    // index -> position in d.full
    let mut by_index = vec![usize::MAX; d.buckets.max(1)];
    for (i, b) in d.full.iter().enumerate() {
        by_index[b.index] = i;
    }
    // link validity
    let sp = resolve(d, d.seal_prev).map_err(|e| format!("seal.prev: {e}"))?;
    let sn = resolve(d, d.seal_next).map_err(|e| format!("seal.next: {e}"))?;
    let mut prev = Vec::with_capacity(d.full.len());
    let mut next = Vec::with_capacity(d.full.len());
    for b in &d.full {
        prev.push(resolve(d, b.prev).map_err(|e| format!("bucket {} prev: {e}", b.index))?);
        next.push(resolve(d, b.next).map_err(|e| format!("bucket {} next: {e}", b.index))?);
    }
    let nx = |t: i32| -> i32 {
        if t == SEAL {
            sn
        } else {
            next[by_index[t as usize]]
        }
    };
    let pv = |t: i32| -> i32 {
        if t == SEAL {
            sp
        } else {
            prev[by_index[t as usize]]
        }
    };
    // reciprocity: a.next == b  <=>  b.prev == a
    let mut nodes: Vec<i32> = vec![SEAL];
    nodes.extend(d.full.iter().map(|b| b.index as i32));
    for &a in &nodes {
        let b = nx(a);
        if pv(b) != a {
            return Err(format!("links not reciprocal: {a}.next = {b} but {b}.prev = {}", pv(b)));
        }
        let b = pv(a);
        if nx(b) != a {
            return Err(format!("links not reciprocal: {a}.prev = {b} but {b}.next = {}", nx(b)));
        }
    }
    // cycle from the seal: LRU = seal.prev, then follow prev (towards MRU)
    let mut order = Vec::with_capacity(d.full.len());
    let mut seen = vec![false; d.buckets.max(1)];
    let mut cur = sp;
    while cur != SEAL {
        if seen[cur as usize] {
            return Err(format!("list revisits bucket {cur} before returning to the seal"));
        }
        seen[cur as usize] = true;
        order.push(cur as u32);
        if order.len() > d.full.len() {
            return Err("list longer than the number of occupied buckets".into());
        }
        cur = pv(cur);
    }
    if order.len() != d.full.len() {
        return Err(format!(
            "list reaches {} of {} occupied buckets",
            order.len(),
            d.full.len()
        ));
    }
    let recorded_sum = d.full.iter().fold(0usize, |a, b| a.wrapping_add(b.size));
    Ok(Walk { order, recorded_sum })
}

// ---------------------------------------------------------------------------
// Canonical key
// ---------------------------------------------------------------------------

fn put(v: &mut Vec<u8>, x: u64) {
    v.extend_from_slice(&x.to_le_bytes());
}
fn put32(v: &mut Vec<u8>, x: u32) {
    v.extend_from_slice(&x.to_le_bytes());
}

/// Canonical key of a structurally valid state. `obs` supplies the
/// key/value content of each bucket (through addresses yielded by iter()).
/// Returns Err if iter() yielded an address outside every dumped bucket.
pub fn canon(hk: HK, d: &VerifDump, w: &Walk, obs: &Obs, extra: &[u64]) -> Result<Vec<u8>, String> {
    let mut v = Vec::with_capacity(64 + 48 * d.full.len() + d.buckets);
    v.push(hk as u8);
    put(&mut v, d.max_size as u64);
    put(&mut v, d.current_size as u64);
    put32(&mut v, d.items as u32);
    put32(&mut v, d.capacity as u32);
    put32(&mut v, if d.alloc_size == 0 { 0 } else { d.buckets as u32 });
    if d.alloc_size != 0 {
        v.extend_from_slice(&d.ctrl);
    }
    // content per bucket
    let mut content: Vec<Option<&EObs>> = vec![None; d.buckets.max(1)];
    if obs.entries.len() != w.order.len() {
        return Err(format!(
            "iter() yielded {} entries, the list holds {}",
            obs.entries.len(),
            w.order.len()
        ));
    }
    for (i, e) in obs.entries.iter().enumerate() {
        let entry_addr = e.kaddr.wrapping_sub(d.key_offset);
        let idx = w.order[i] as usize;
        let expect = d.data_end - (idx + 1) * d.stride;
        if entry_addr != expect || e.vaddr != expect + d.value_offset {
            return Err(format!(
                "iter() item {i} does not live in list node {i} (bucket {idx})"
            ));
        }
        content[idx] = Some(e);
    }
    let tgt = |addr: usize| -> i32 { resolve(d, addr).unwrap_or(-2) };
    for b in &d.full {
        let e = content[b.index].ok_or_else(|| format!("bucket {} not reached by iter()", b.index))?;
        put32(&mut v, b.index as u32);
        put32(&mut v, e.id);
        put32(&mut v, e.kheap as u32);
        put(&mut v, e.vheap as u64);
        put(&mut v, b.size as u64);
        put32(&mut v, tgt(b.prev) as u32);
        put32(&mut v, tgt(b.next) as u32);
    }
    put32(&mut v, tgt(d.seal_prev) as u32);
    put32(&mut v, tgt(d.seal_next) as u32);
    for x in extra {
        put(&mut v, *x);
    }
    Ok(v)
}

/// Address-free fingerprint of a dump alone (no content); used where the
/// state must be compared without calling the public API.
pub fn dump_fingerprint(d: &VerifDump) -> Vec<u64> {
    let mut v = vec![
        d.max_size as u64,
        d.current_size as u64,
        d.items as u64,
        d.capacity as u64,
        d.buckets as u64,
        d.alloc_size as u64,
    ];
    v.extend(d.ctrl.iter().map(|c| *c as u64));
    let tgt = |addr: usize| -> u64 { resolve(d, addr).unwrap_or(-2) as i64 as u64 };
    for b in &d.full {
        v.push(b.index as u64);
        v.push(b.size as u64);
        v.push(tgt(b.prev));
        v.push(tgt(b.next));
    }
    v.push(tgt(d.seal_prev));
    v.push(tgt(d.seal_next));
    v
}


/// The part of a canonical key that iterators and Drop can observe: hasher
/// kind, table geometry, control bytes and the link structure - without key
/// ids, sizes, the limit and the counters. Used to choose one representative
/// state per list/table shape for the owning-iterator sweep of the quick tier.
pub fn shape_of(key: &[u8]) -> Vec<u8> {
    let mut out = Vec::with_capacity(key.len() / 2);
    if key.len() < 29 {
        return key.to_vec();
    }
    out.push(key[0]);
    let items = u32::from_le_bytes([key[17], key[18], key[19], key[20]]) as usize;
    let buckets = u32::from_le_bytes([key[25], key[26], key[27], key[28]]) as usize;
    out.extend_from_slice(&key[17..21]);
    out.extend_from_slice(&key[25..29]);
    let mut p = 29;
    if p + buckets > key.len() {
        return key.to_vec();
    }
    out.extend_from_slice(&key[p..p + buckets]);
    p += buckets;
    // per full bucket: index 4, id 4, kheap 4, vheap 8, size 8, prev 4, next 4 = 36 bytes
    for _ in 0..items {
        if p + 36 > key.len() {
            return key.to_vec();
        }
        out.extend_from_slice(&key[p..p + 4]);
        out.extend_from_slice(&key[p + 28..p + 36]);
        p += 36;
    }
    if p + 8 <= key.len() {
        out.extend_from_slice(&key[p..p + 8]);
    }
    out
}
