//! Execution of one transition on the real cache with all step-local oracles
//! (DESIGN.md 3.5, 3.8, 4).

use crate::ops::*;
use crate::refmodel::{self, Incoming, RefStep, EXPECTED_PANIC};
use crate::state::*;
use crate::types::*;
use std::collections::{BTreeMap, BTreeSet};
use std::panic::{catch_unwind, AssertUnwindSafe};

pub type Props = u32;
pub const fn p(n: u32) -> Props {
    1 << n
}
pub const ALL_PROPS: Props = 0x1f_fffe;

pub fn prop_name(n: u32) -> String {
    format!("C{:02}", n)
}
pub fn parse_prop(s: &str) -> Option<u32> {
    let s = s.trim();
    if s.len() == 3 && (s.starts_with('C') || s.starts_with('c')) {
        s[1..].parse::<u32>().ok().filter(|n| (1..=20).contains(n))
    } else {
        None
    }
}

#[derive(Clone, Debug)]
pub struct Violation {
    /// property numbers this rule belongs to (bit set)
    pub props: Props,
    pub rule: &'static str,
    pub detail: String,
}

#[derive(Default, Clone, Debug)]
pub struct Stats {
    pub classes: BTreeMap<&'static str, u64>,
    pub rule_evals: BTreeMap<&'static str, u64>,
    pub transitions: u64,
    pub executions: u64,
    pub replays_validated: u64,
    pub pruned_corrupt: u64,
    pub pruned_insane: u64,
}

impl Stats {
    pub fn class(&mut self, c: &'static str) {
        if !c.is_empty() {
            *self.classes.entry(c).or_insert(0) += 1;
        }
    }
    pub fn rule(&mut self, r: &'static str) {
        *self.rule_evals.entry(r).or_insert(0) += 1;
    }
    pub fn merge(&mut self, o: &Stats) {
        for (k, v) in &o.classes {
            *self.classes.entry(k).or_insert(0) += v;
        }
        for (k, v) in &o.rule_evals {
            *self.rule_evals.entry(k).or_insert(0) += v;
        }
        self.transitions += o.transitions;
        self.executions += o.executions;
        self.replays_validated += o.replays_validated;
        self.pruned_corrupt += o.pruned_corrupt;
        self.pruned_insane += o.pruned_insane;
    }
}

pub struct Ctx<'u> {
    pub u: &'u Universe,
    pub sel: Props,
    /// C13 growth bound as a state invariant: capacity() < .0 or <= .1
    pub growth_bound: Option<(usize, usize)>,
    /// non-zero in post-fault continuation runs: structure / registry /
    /// recorded-sum rules are attributed to these properties, accounting
    /// pruning is off (a torn operation legitimately leaves sizes stale)
    pub fault_props: Props,
    /// additional key ids to look up in every state (removed seed fillers)
    pub extra_ids: Vec<u32>,
    /// rule signatures of recorded known findings: they are reported but do
    /// not stop the exploration of the state they lead to
    pub known_rules: Vec<String>,
}

/// Panic payload -> readable string; distinguishes injected panics.
pub fn payload_str(pl: &Box<dyn std::any::Any + Send>) -> String {
    if let Some(InjectedPanic(k, _)) = pl.downcast_ref::<InjectedPanic>() {
        format!("<injected panic in {:?}>", k)
    } else if let Some(s) = pl.downcast_ref::<String>() {
        s.clone()
    } else if let Some(s) = pl.downcast_ref::<&'static str>() {
        (*s).to_string()
    } else {
        "<non-string panic payload>".into()
    }
}

pub fn is_injected(pl: &Box<dyn std::any::Any + Send>) -> bool {
    pl.downcast_ref::<InjectedPanic>().is_some()
}

/// Applies `op`, converting an unwind into Ret::Panicked.
pub fn apply_caught(ex: &mut Exec, op: Op) -> Ret {
    match catch_unwind(AssertUnwindSafe(|| ex.apply(op))) {
        Ok(r) => r,
        Err(pl) => {
            ex.side = Exec::side_now();
            Ret::Panicked(payload_str(&pl))
        }
    }
}

/// Rebuilds a state by replaying its history on a fresh real cache.
pub fn rebuild<'u>(u: &'u Universe, cfg: &Config, hist: &[Op]) -> Exec<'u> {
    crate::contain::heartbeat();
    let mut ex = Exec::new(u, cfg);
    for &h in hist {
        let _ = apply_caught(&mut ex, h);
        if !matches!(h, Op::ArmFuel { .. }) {
            set_fuel(None);
        }
    }
    ex
}

pub fn ret_matches(actual: &Ret, expected: &Ret) -> bool {
    match (actual, expected) {
        (Ret::Panicked(_), Ret::Panicked(e)) if e == EXPECTED_PANIC => true,
        (Ret::ReserveErr { .. }, Ret::ReserveErr { .. }) => true,
        (a, b) => a == b,
    }
}

/// The property that specifies the postcondition of an operation kind.
pub fn op_owner(op: Op) -> Props {
    match op {
        Op::Mutate { .. } => p(11),
        Op::Retain { .. } | Op::RetainMod { .. } => p(15),
        Op::Reserve { .. } | Op::TryReserve { .. } | Op::ShrinkTo { .. } | Op::ShrinkToFit => p(13),
        Op::CloneSwap => p(14),
        Op::Drain { .. } | Op::DrainForget { .. } => p(12),
        Op::Insert { .. } | Op::InsertRaw { .. } | Op::TryInsert { .. } | Op::SetMax { .. } | Op::SetMaxRaw { .. } => p(3),
        Op::Get { .. } | Op::GetEntry { .. } | Op::Touch { .. } | Op::GetLru => p(5),
        Op::Peek { .. } | Op::PeekEntry { .. } | Op::Contains { .. } | Op::DebugFmt => p(19),
        _ => 0,
    }
}

/// Full structural snapshot of a state: dump, walk, observation, key.
pub struct Snap {
    pub dump: lru_mem::VerifDump,
    pub walk: Walk,
    pub obs: Obs,
    pub key: Vec<u8>,
}

pub fn snapshot(c: &Cache, hk: HK) -> Result<Snap, String> {
    let dump = c.verif_dump();
    let walk = walk(&dump)?;
    let obs = observe(c, dump.items + 1);
    if obs.overrun {
        return Err("iter() yields more entries than the table holds".into());
    }
    let key = canon(hk, &dump, &walk, &obs, &[])?;
    Ok(Snap { dump, walk, obs, key })
}

pub struct TransOut {
    /// canonical key of the post state, None when it must not be expanded
    pub post_key: Option<Vec<u8>>,
    pub viol: Vec<Violation>,
    /// machinery error (non-deterministic replay etc.)
    pub machinery: Option<String>,
    /// The post state has the same canonical key as the pre state (everything the
    /// hook reports is unchanged, same table allocation) and still the bytes of the
    /// cache object itself differ: the operation wrote state the canonical key
    /// cannot see. Holds the offsets of the differing bytes.
    pub hidden: Option<Vec<u8>>,
}

fn v(props: Props, rule: &'static str, detail: String) -> Violation {
    Violation { props, rule, detail }
}

static CHILD_BUDGET: std::sync::atomic::AtomicUsize = std::sync::atomic::AtomicUsize::new(300);

/// End of life of a cache whose structure is incoherent, tried out in a forked
/// child process (the parent must not touch such a cache: dropping it may be
/// undefined behaviour). The child gives back what the harness holds, drops the
/// cache and reports what the identity registry saw: Some(why) if a key or value
/// is dropped twice or never (or the drop crashes / does not come back), None if
/// every instance was dropped exactly once or the experiment was inconclusive.
pub fn end_of_life_in_child(ex: &mut Exec) -> Option<String> {
    use std::sync::atomic::Ordering;
    if CHILD_BUDGET.fetch_update(Ordering::SeqCst, Ordering::SeqCst, |b| b.checked_sub(1)).is_err() {
        return None;
    }
    unsafe {
        let mut fds = [0 as libc::c_int; 2];
        if libc::pipe(fds.as_mut_ptr()) != 0 {
            return None;
        }
        let pid = libc::fork();
        if pid < 0 {
            libc::close(fds[0]);
            libc::close(fds[1]);
            return None;
        }
        if pid == 0 {
            // child: only this thread exists; crashes must not reach the parent's markers
            for sig in [libc::SIGSEGV, libc::SIGABRT, libc::SIGBUS, libc::SIGILL, libc::SIGFPE] {
                libc::signal(sig, libc::SIG_DFL);
            }
            libc::close(fds[0]);
            let _ = take_reg_violations();
            let r = catch_unwind(AssertUnwindSafe(|| {
                ex.release();
                drop(ex.cache.take());
            }));
            let double = take_reg_violations().len().min(250) as u8;
            let live = live_serials().len().min(250) as u8;
            let msg = [if r.is_err() { 1u8 } else { 0 }, double, live];
            libc::write(fds[1], msg.as_ptr() as *const libc::c_void, 3);
            libc::_exit(0);
        }
        libc::close(fds[1]);
        let mut pfd = libc::pollfd { fd: fds[0], events: libc::POLLIN, revents: 0 };
        let ready = libc::poll(&mut pfd, 1, 3000);
        let mut msg = [0u8; 3];
        let n = if ready > 0 { libc::read(fds[0], msg.as_mut_ptr() as *mut libc::c_void, 3) } else { -1 };
        libc::close(fds[0]);
        if ready <= 0 {
            libc::kill(pid, libc::SIGKILL);
        }
        let mut status: libc::c_int = 0;
        libc::waitpid(pid, &mut status, 0);
        if ready <= 0 {
            return Some("dropping the cache does not come back within 3 s".into());
        }
        if n != 3 {
            if libc::WIFSIGNALED(status) {
                return Some(format!("dropping the cache dies on signal {}", libc::WTERMSIG(status)));
            }
            return None;
        }
        if msg[0] != 0 {
            return Some("dropping the cache panics".into());
        }
        if msg[1] != 0 {
            return Some(format!("{} registry violation(s) (an instance dropped twice or used after its drop) when the cache is dropped", msg[1]));
        }
        if msg[2] != 0 {
            return Some(format!("{} key / value instance(s) are never dropped: still alive after the cache and everything it handed out were dropped", msg[2]));
        }
        None
    }
}

/// Sanity precondition (3.8) of an observed state. Returns the reason if the
/// accounting is not sane.
pub fn insane(o: &Obs, e: usize) -> Option<String> {
    if o.cur != o.sum(e) {
        return Some(format!("current_size {} != Σ entry_size {}", o.cur, o.sum(e)));
    }
    if o.len != o.entries.len() {
        return Some(format!("len {} != iterated {}", o.len, o.entries.len()));
    }
    if o.cur > o.limit {
        return Some(format!("current_size {} > max_size {}", o.cur, o.limit));
    }
    None
}

/// Runs `hist` then `op` on a fresh real cache and evaluates every step-local
/// rule on the last step.
pub fn run_transition(
    ctx: &Ctx,
    cfg: &Config,
    hist: &[Op],
    op: Op,
    expect_pre_key: Option<&[u8]>,
    st: &mut Stats,
) -> TransOut {
    run_transition_h(ctx, cfg, hist, op, expect_pre_key, None, st)
}

/// `ref_pre`: the reference's own state after `hist` (history-level rules).
pub fn run_transition_h(
    ctx: &Ctx,
    cfg: &Config,
    hist: &[Op],
    op: Op,
    expect_pre_key: Option<&[u8]>,
    ref_pre: Option<&(Vec<refmodel::RE>, usize)>,
    st: &mut Stats,
) -> TransOut {
    let u = ctx.u;
    let e = u.e;
    reg_reset();
    reset_counts();
    set_fuel(None);
    let mut viol: Vec<Violation> = vec![];
    let mut ex = rebuild(u, cfg, hist);
    st.executions += 1;
    st.transitions += 1;

    let pre = match snapshot(ex.cr(), cfg.hk) {
        Ok(s) => s,
        Err(why) => {
            return TransOut {
                post_key: None,
                viol,
                machinery: Some(format!("pre-state no longer validates on replay: {why}")),
                hidden: None,
            }
        }
    };
    if let Some(k) = expect_pre_key {
        if k != &pre.key[..] {
            return TransOut {
                post_key: None,
                viol,
                machinery: Some(format!("replay of a witness history reached a different state: stored {:?} replayed {:?}", k, pre.key)),
                hidden: None,
            };
        }
        st.replays_validated += 1;
    }
    let _ = take_reg_violations(); // the pre-state was judged when it was discovered
    let mark = reg(|r| r.drop_log.len());
    let c0 = counts();
    let raw_pre = crate::faults::raw_bytes(ex.cr());
    crate::trap::quarantine_begin();
    let ret = apply_caught(&mut ex, op);
    let raw_post = crate::faults::raw_bytes(ex.cr());
    // memory the operation freed stays poisoned and held back until here; only the
    // operation itself ran in between
    if let Some(why) = crate::trap::quarantine_end() {
        st.rule("C07.write-after-free");
        viol.push(v(p(7) | op_owner(op), "C07.write-after-free", why));
    }
    let c1 = counts();
    let side = ex.side.clone();

    // ---- known corner: a growing mutate whose transient total exceeds usize::MAX
    if let (Op::Mutate { k, h, .. }, Ret::Panicked(msg)) = (op, &ret) {
        if msg.contains("overflow") {
            if let Some(x) = pre.obs.entries.iter().find(|x| x.id == k as u32) {
                let new_s = e + x.kheap + u.vheaps[h as usize];
                let old_s = e + x.kheap + x.vheap;
                if new_s > old_s && new_s <= pre.obs.limit && pre.obs.cur.checked_add(new_s - old_s).is_none() {
                    st.rule("C11.transient-overflow");
                    viol.push(v(
                        p(11),
                        "C11.transient-overflow",
                        format!(
                            "mutate growing an entry to {} bytes while {} bytes are accounted: the grown entry fits max_size() = {} once older entries are evicted, but current_size + growth overflows usize before the eviction ({})",
                            new_s, pre.obs.cur, fmt_big(pre.obs.limit), msg
                        ),
                    ));
                    std::mem::forget(ex.cache.take());
                    viol.retain(|x| x.props & ctx.sel != 0);
                    return TransOut { post_key: None, viol, machinery: None, hidden: None };
                }
            }
        }
    }

    // ---- structure first: nothing touches the post state before the walker
    let post_dump = ex.cr().verif_dump();
    let post_walk = match walk(&post_dump) {
        Ok(w) => w,
        Err(why) => {
            st.rule("C07.structure");
            st.pruned_corrupt += 1;
            // an operation that leaves the structure incoherent cannot have met
            // its own postcondition either: also owned by the map property and
            // by the property that specifies this operation
            viol.push(v(
                p(7) | ctx.fault_props | p(4) | op_owner(op),
                "C07.structure",
                format!("after the operation the list/table structure is incoherent: {why}"),
            ));
            // what becomes of the keys and values when such a cache is dropped is
            // tried out in a child process
            if ctx.sel & p(6) != 0 {
                st.rule("C06.end-of-life");
                if let Some(how) = end_of_life_in_child(&mut ex) {
                    viol.push(v(p(6), "C06.end-of-life", format!("the operation leaves the list/table structure incoherent ({why}); dropping the cache in that state (tried in a child process): {how}")));
                }
            }
            // the cache is not safe to operate on or drop
            std::mem::forget(ex.cache.take());
            viol.retain(|x| x.props & ctx.sel != 0);
            return TransOut { post_key: None, viol, machinery: None, hidden: None };
        }
    };
    st.rule("C07.structure");
    let post_obs = observe(ex.cr(), post_dump.items + 1);
    let post_key = if post_obs.overrun {
        Err("iter() yields more entries than the table holds".to_string())
    } else {
        canon(cfg.hk, &post_dump, &post_walk, &post_obs, &[])
    };
    let post_key = match post_key {
        Ok(k) => k,
        Err(why) => {
            st.pruned_corrupt += 1;
            viol.push(v(p(7) | ctx.fault_props | p(4) | op_owner(op), "C07.traversal", why));
            std::mem::forget(ex.cache.take());
            viol.retain(|x| x.props & ctx.sel != 0);
            return TransOut { post_key: None, viol, machinery: None, hidden: None };
        }
    };
    for rv in take_reg_violations() {
        viol.push(v(p(6) | p(7) | ctx.fault_props, "C06/C07.registry", rv));
    }
    let mut recorded_ok = true;
    if ctx.fault_props != 0 {
        st.rule("C16.recorded-sum");
        if post_walk.recorded_sum != post_dump.current_size {
            recorded_ok = false;
            viol.push(v(
                ctx.fault_props,
                "C16.recorded-sum",
                format!("current_size() = {} but the sizes recorded for the remaining entries sum to {}", post_dump.current_size, post_walk.recorded_sum),
            ));
        }
        // "... traversal in both directions still mirrors, matches len() and agrees with lookups" -
        // also after further use of a cache that survived a fault
        st.rule("postfault.lookup");
        let saved_counts = counts();
        {
            let c = ex.cr();
            let n = post_obs.entries.len();
            let mut rev: Vec<u64> = c.iter().rev().take(n + 2).map(|(k, _)| k.serial).collect();
            rev.reverse();
            let fwd: Vec<u64> = post_obs.entries.iter().map(|x| x.kserial).collect();
            if rev != fwd || c.len() != n {
                viol.push(v(ctx.fault_props, "postfault.mirror", format!("forward traversal {:?}, reversed reverse traversal {:?}, len() = {}", fwd, rev, c.len())));
            }
            let mut ids: Vec<u32> = (0..u.nkeys as u32).collect();
            for x in &post_obs.entries {
                if !ids.contains(&x.id) {
                    ids.push(x.id);
                }
            }
            for id in ids.into_iter().take(64) {
                let exp = post_obs.entries.iter().find(|x| x.id == id).map(|x| (x.kserial, x.vserial));
                let got = c.peek_entry(&QKey(KeyId(id))).map(|(k, x)| (k.serial, x.serial));
                if got != exp {
                    viol.push(v(ctx.fault_props, "postfault.lookup", format!("lookup of k{id} finds {:?} but traversal holds {:?}", got, exp)));
                    break;
                }
            }
        }
        restore_counts(saved_counts);
    }

    let o = &post_obs;
    let pr = &pre.obs;
    // which key instance is stored after re-inserting an equal key?
    let kept_old_kheap: Option<usize> = match op {
        Op::Insert { k, .. } | Op::InsertRaw { k, .. } => pr.entries.iter().find(|x| x.id == k as u32).and_then(|old| {
            post_obs.entries.iter().find(|x| x.id == k as u32 && x.kserial == old.kserial && matches!(ret, Ret::InsertOk(_))).map(|_| old.kheap)
        }),
        _ => None,
    };
    let r: RefStep =
        refmodel::step(u, pr, op, &Incoming { kserial: side.in_k, vserial: side.in_v, kheap_override: kept_old_kheap });
    st.class(r.class);

    // serial mapping for clone-and-continue: the clone holds fresh instances
    let map_serial = |s: u64| -> u64 {
        if matches!(op, Op::CloneSwap) {
            reg(|r| r.cloned_from.get(s as usize).copied().unwrap_or(NO_SERIAL))
        } else {
            s
        }
    };

    // ---- C01
    st.rule("C01.bound");
    if o.cur > o.limit {
        viol.push(v(p(1), "C01.bound", format!("current_size() = {} > max_size() = {}", o.cur, o.limit)));
    }
    if o.sum(e) > o.limit {
        viol.push(v(
            p(1),
            "C01.bound-sum",
            format!("Σ entry_size over held entries = {} > max_size() = {}", o.sum(e), o.limit),
        ));
    }
    // ---- C02
    st.rule("C02.exact");
    if o.cur != o.sum(e) {
        let stale: Vec<String> = post_dump
            .full
            .iter()
            .map(|b| format!("bucket {} records {}", b.index, b.size))
            .collect();
        viol.push(v(
            p(2),
            "C02.exact",
            format!(
                "current_size() = {} but Σ entry_size(k,v) over held entries = {} (recorded: {})",
                o.cur,
                o.sum(e),
                stale.join(", ")
            ),
        ));
    }
    if o.len != o.entries.len() {
        viol.push(v(p(2), "C02.len", format!("len() = {} but {} entries held", o.len, o.entries.len())));
    }
    if (o.cur == 0) != o.is_empty || o.is_empty != (o.len == 0) {
        viol.push(v(
            p(2),
            "C02.empty",
            format!("current_size() = {}, is_empty() = {}, len() = {}", o.cur, o.is_empty, o.len),
        ));
    }

    // ---- departed set
    let post_kserials: BTreeSet<u64> = o.entries.iter().map(|x| map_serial(x.kserial)).collect();
    let departed: Vec<&EObs> = pr.entries.iter().filter(|x| !post_kserials.contains(&x.kserial)).collect();
    let explicit: BTreeSet<u64> = r.explicit.iter().map(|x| x.kserial).collect();
    let unasked: Vec<u64> = departed.iter().map(|x| x.kserial).filter(|s| !explicit.contains(s)).collect();
    let exp_evicted: Vec<u64> = r.evicted.iter().map(|x| x.kserial).collect();

    // ---- C03
    st.rule("C03.evict");
    if unasked != exp_evicted {
        viol.push(v(
            p(3),
            "C03.evict",
            format!(
                "entries that left without being asked for: keys {:?}; the minimal LRU prefix is {:?} (pre order {:?}, limit {} -> {})",
                ids_of(pr, &unasked),
                r.evicted.iter().map(|x| x.id).collect::<Vec<_>>(),
                pr.ids(),
                pr.limit,
                r.limit
            ),
        ));
    } else if exp_evicted.len() > 1 {
        // oldest first: drop order of the evicted keys
        let log: Vec<u64> = reg(|rg| rg.drop_log[mark..].to_vec());
        let posn: Vec<Option<usize>> =
            exp_evicted.iter().map(|s| log.iter().position(|x| x == s)).collect();
        if posn.iter().all(|x| x.is_some()) && !posn.windows(2).all(|w| w[0] < w[1]) {
            viol.push(v(
                p(3),
                "C03.oldest-first",
                format!("evicted keys {:?} were not dropped oldest first", r.evicted.iter().map(|x| x.id).collect::<Vec<_>>()),
            ));
        }
    }
    // history-level: the victims must also be the least recently used by the
    // order of last access accumulated over the WHOLE history (the reference's
    // own state), not only by the order the cache reported before this step.
    // Evaluated when both agree on what is held.
    if let Some((rl, rlimit)) = ref_pre {
        let mut a: Vec<u32> = rl.iter().map(|x| x.id).collect();
        let mut b: Vec<u32> = pr.ids();
        a.sort();
        b.sort();
        let same_sizes = rl.iter().all(|x| pr.entries.iter().any(|y| y.id == x.id && y.kheap == x.kheap && y.vheap == x.vheap));
        if a == b && *rlimit == pr.limit && same_sizes && !matches!(op, Op::CloneSwap) {
            st.rule("C03.history");
            let robs = Obs {
                limit: *rlimit,
                cap: pr.cap,
                len: rl.len(),
                cur: usize::try_from(rl.iter().map(|x| x.size(e) as u128).sum::<u128>()).unwrap_or(usize::MAX),
                is_empty: rl.is_empty(),
                entries: rl
                    .iter()
                    .map(|x| {
                        let y = pr.entries.iter().find(|y| y.id == x.id).unwrap();
                        EObs { id: x.id, kheap: x.kheap, kserial: y.kserial, vheap: x.vheap, vserial: y.vserial, kaddr: 0, vaddr: 0 }
                    })
                    .collect(),
                overrun: false,
            };
            let rg = refmodel::step(u, &robs, op, &Incoming { kserial: side.in_k, vserial: side.in_v, kheap_override: kept_old_kheap });
            let mut want: Vec<u32> = rg.evicted.iter().map(|x| x.id).collect();
            let mut got: Vec<u32> = ids_of(pr, &unasked);
            want.sort();
            got.sort();
            if want != got {
                viol.push(v(
                    p(3),
                    "C03.history",
                    format!(
                        "evicted keys {:?}; by the order of last access over the whole history ({:?}, LRU first) the least recently used to go are {:?} (the cache reported the order {:?} before this step)",
                        got,
                        rl.iter().map(|x| x.id).collect::<Vec<_>>(),
                        want,
                        pr.ids()
                    ),
                ));
            }
        }
    }
    if let Some(id) = r.promoted {
        if o.pos(id).is_none() {
            viol.push(v(
                p(3) | p(4),
                "C03.spared",
                format!("key {id} was inserted / accessed / mutated by this operation but is not held afterwards"),
            ));
        }
    }

    // ---- C04
    st.rule("C04.return");
    let ret_ok = ret_matches(&ret, &r.ret);
    if !ret_ok {
        let mut props = p(4);
        match op {
            Op::Insert { .. } | Op::TryInsert { .. } | Op::InsertRaw { .. } => props |= p(10),
            Op::Mutate { .. } => props |= p(11),
            Op::Drain { .. } => props |= p(12),
            Op::Reserve { .. } | Op::TryReserve { .. } => props = p(13),
            _ => {}
        }
        if matches!(ret, Ret::Panicked(_)) {
            // an operation that panics where the reference returns has not met its own
            // specification either (e.g. shrink_to(usize::MAX) must be a no-op)
            props |= op_owner(op);
        }
        viol.push(v(props, "C04.return", format!("returned {:?}, a sequential map returns {:?}", ret, r.ret)));
    }
    st.rule("C04.contents");
    {
        // which key INSTANCE is kept when an equal key is inserted again is not
        // part of the statement (std's HashMap keeps the old one): values by
        // identity, keys by equality
        let got: BTreeMap<u32, (u64, usize)> = o.entries.iter().map(|x| (x.id, (map_serial(x.vserial), x.vheap))).collect();
        let exp: BTreeMap<u32, (u64, usize)> = r.post.iter().map(|x| (x.id, (x.vserial, x.vheap))).collect();
        {
            let gk: BTreeMap<u32, u64> = o.entries.iter().map(|x| (x.id, map_serial(x.kserial))).collect();
            let ek: BTreeMap<u32, u64> = r.post.iter().map(|x| (x.id, x.kserial)).collect();
            if gk != ek && got == exp {
                st.class("replace:kept-another-key-instance");
            }
        }
        if got.len() != o.entries.len() {
            viol.push(v(p(4) | p(7), "C04.unique", format!("a key is held twice: {:?}", o.ids())));
        }
        if got != exp {
            viol.push(v(
                p(4),
                "C04.contents",
                format!("holds {{key id: (value#, heap)}} {:?}, a sequential map holds {:?}", got, exp),
            ));
        }
        if o.limit != r.limit {
            viol.push(v(p(4), "C04.limit", format!("max_size() = {}, expected {}", o.limit, r.limit)));
        }
    }

    // ---- C05: relative order on the keys both agree on
    st.rule("C05.order");
    {
        let exp_ids: Vec<u32> = r.post.iter().map(|x| x.id).collect();
        let got_ids = o.ids();
        let a: Vec<u32> = got_ids.iter().copied().filter(|i| exp_ids.contains(i)).collect();
        let b: Vec<u32> = exp_ids.iter().copied().filter(|i| got_ids.contains(i)).collect();
        if a != b {
            viol.push(v(
                p(5),
                "C05.order",
                format!("recency order LRU→MRU is {:?}, the order of last access is {:?} (before: {:?})", a, b, pr.ids()),
            ));
        }
        if let Some(id) = r.promoted {
            let n = pr.entries.len();
            st.class(match pr.pos(id) {
                None => "access:fresh",
                Some(_) if n == 1 => "access:only",
                Some(0) => "access:lru",
                Some(i) if i == n - 1 => "access:mru",
                Some(_) => "access:middle",
            });
        }
    }

    // ---- C06: conservation after the step
    st.rule("C06.conservation");
    {
        let mut expected_live: BTreeSet<u64> = BTreeSet::new();
        for x in &o.entries {
            expected_live.insert(x.kserial);
            expected_live.insert(x.vserial);
        }
        for k in &ex.held_k {
            expected_live.insert(k.serial);
        }
        for x in &ex.held_v {
            expected_live.insert(x.serial);
        }
        let live: BTreeSet<u64> = live_serials().into_iter().collect();
        let leaked: Vec<u64> = live.difference(&expected_live).copied().collect();
        if !leaked.is_empty() {
            viol.push(v(
                p(6),
                "C06.leak",
                format!(
                    "instances {:?} are neither held by the cache, nor were returned, nor were dropped",
                    leaked
                ),
            ));
        }
        let premature: Vec<u64> = expected_live.difference(&live).copied().collect();
        if !premature.is_empty() {
            viol.push(v(
                p(6) | p(7),
                "C06.premature",
                format!("instances {:?} are still reachable but were already dropped", premature),
            ));
        }
    }

    // ---- C10
    if matches!(op, Op::Insert { .. } | Op::TryInsert { .. } | Op::InsertRaw { .. }) {
        st.rule("C10.reject");
        let failed_expected = !matches!(r.ret, Ret::InsertOk(_) | Ret::TryOk);
        let failed_actual = !matches!(ret, Ret::InsertOk(_) | Ret::TryOk);
        if failed_actual {
            // the statement: contents, order and sizes untouched (instances by
            // identity). A change of the internal table only (e.g. a capacity
            // reservation) is recorded as a class, not judged here - C13 / C20
            // judge capacity and rehashing.
            let a: Vec<(u64, u64, usize, usize)> = pr.entries.iter().map(|x| (x.kserial, x.vserial, x.kheap, x.vheap)).collect();
            let b: Vec<(u64, u64, usize, usize)> = o.entries.iter().map(|x| (x.kserial, x.vserial, x.kheap, x.vheap)).collect();
            if a != b || pr.cur != o.cur || pr.limit != o.limit || pr.len != o.len {
                viol.push(v(
                    p(10),
                    "C10.atomic",
                    format!("the insertion was rejected ({:?}) but contents, order or sizes changed: before {:?} (current_size {}), after {:?} (current_size {})", ret, pr.ids(), pr.cur, o.ids(), o.cur),
                ));
            } else if post_key != pre.key {
                st.class("reject:internal-table-change");
            }
        }
        if !failed_expected && matches!(op, Op::TryInsert { .. }) && !departed.is_empty() {
            viol.push(v(
                p(10),
                "C10.no-evict",
                format!("try_insert of a fitting entry removed keys {:?}", departed.iter().map(|x| x.id).collect::<Vec<_>>()),
            ));
        }
    }

    // ---- C11
    if let Op::Mutate { .. } = op {
        st.rule("C11.mutate");
        if side.mut_calls != r.mut_calls {
            viol.push(v(
                p(11),
                "C11.calls",
                format!("closure invoked with values {:?}, expected {:?}", side.mut_calls, r.mut_calls),
            ));
        }
        let got: Vec<(u32, u64, usize)> = o.entries.iter().map(|x| (x.id, x.vserial, x.vheap)).collect();
        let exp: Vec<(u32, u64, usize)> = r.post.iter().map(|x| (x.id, x.vserial, x.vheap)).collect();
        if got != exp {
            viol.push(v(
                p(11),
                "C11.post",
                format!("after mutate the cache holds (id, value#, heap) {:?}, expected {:?}", got, exp),
            ));
        }
        if o.cur as u128 != r.post.iter().map(|x| x.size(e) as u128).sum::<u128>() {
            viol.push(v(
                p(11),
                "C11.accounted",
                format!("current_size() = {} after mutate, expected {}", o.cur, r.post.iter().map(|x| x.size(e) as u128).sum::<u128>()),
            ));
        }
    }

    // ---- C13
    if matches!(
        op,
        Op::Reserve { .. } | Op::TryReserve { .. } | Op::ShrinkTo { .. } | Op::ShrinkToFit
    ) {
        st.rule("C13.capop");
        let unchanged_content = pr.entries.iter().map(|x| (x.kserial, x.vserial, x.vheap)).collect::<Vec<_>>()
            == o.entries.iter().map(|x| (x.kserial, x.vserial, x.vheap)).collect::<Vec<_>>()
            && pr.cur == o.cur
            && pr.limit == o.limit
            && pr.len == o.len;
        if !unchanged_content {
            viol.push(v(p(13), "C13.transparent", format!("{} changed contents, order or sizes", op.show(u))));
        }
        match op {
            Op::Reserve { a } | Op::TryReserve { a } => {
                let add = u.reserve_args[a as usize];
                let ok = matches!(ret, Ret::Unit | Ret::ReserveOk);
                if ok {
                    match pr.len.checked_add(add) {
                        Some(need) if o.cap >= need => {
                            st.class(if post_dump.buckets != pre.dump.buckets || post_dump.alloc_addr != pre.dump.alloc_addr {
                                "reserve:reallocated"
                            } else {
                                "reserve:sufficient"
                            });
                        }
                        _ => viol.push(v(
                            p(13),
                            "C13.reserve",
                            format!("after {} capacity() = {} < len {} + additional {}", op.show(u), o.cap, pr.len, fmt_big(add)),
                        )),
                    }
                } else {
                    st.class("reserve:failed");
                    if post_key != pre.key {
                        viol.push(v(p(13), "C13.failed-unchanged", format!("{} failed but the cache changed", op.show(u))));
                    }
                }
            }
            Op::ShrinkTo { .. } | Op::ShrinkToFit => {
                let min = match op {
                    Op::ShrinkTo { m } => {
                        let x = SHRINK_ARGS[m as usize];
                        if x == SHRINK_LEN {
                            pr.len
                        } else {
                            x
                        }
                    }
                    _ => 0,
                };
                let floor = pr.len.max(min);
                let tomb = pre.dump.ctrl.iter().any(|c| *c == 0x80);
                if o.cap > pr.cap {
                    viol.push(v(
                        p(13),
                        if tomb { "C13.shrink-raises-capacity/tombstones" } else { "C13.shrink-raises-capacity" },
                        format!("{} raised capacity() from {} to {}", op.show(u), pr.cap, o.cap),
                    ));
                }
                if pr.cap >= floor && o.cap < floor {
                    viol.push(v(
                        p(13),
                        "C13.shrink-floor",
                        format!("{} left capacity() = {} < max(len, min) = {}", op.show(u), o.cap, floor),
                    ));
                }
                st.class(if o.cap < pr.cap { "shrink:shrunk" } else { "shrink:noop" });
            }
            _ => {}
        }
    } else {
        // every other operation: buckets change only by automatic growth in an
        // insertion (or clone), and then to the table holding 2 x items
        st.rule("C13.growth");
        let grew = post_dump.buckets != pre.dump.buckets || post_dump.alloc_size != pre.dump.alloc_size;
        if grew {
            match op {
                Op::Insert { .. } | Op::TryInsert { .. } | Op::InsertRaw { .. } => {
                    // items at the time of growth = post len - 1
                    let items = o.len.saturating_sub(1);
                    let want2 = hashbrown::raw::RawTable::<u64>::with_capacity((items * 2).max(1)).buckets();
                    st.class("growth:auto");
                    if post_dump.buckets != want2 {
                        viol.push(v(
                            p(13),
                            "C13.growth-size",
                            format!(
                                "automatic growth took the table from {} to {} buckets with {} entries (the smallest table holding twice the entries has {})",
                                pre.dump.buckets, post_dump.buckets, items, want2
                            ),
                        ));
                    }
                }
                Op::CloneSwap => {
                    if o.cap < pr.cap {
                        viol.push(v(p(13) | p(14), "C14.capacity", format!("clone has capacity {} < source {}", o.cap, pr.cap)));
                    }
                }
                _ => {
                    // an operation that is neither an insertion nor a capacity
                    // operation must not GROW the table (the statement bounds
                    // growth; it does not forbid giving memory back)
                    if post_dump.buckets > pre.dump.buckets {
                        viol.push(v(
                            p(13),
                            "C13.unexpected-growth",
                            format!("{} grew the table from {} to {} buckets", op.show(u), pre.dump.buckets, post_dump.buckets),
                        ));
                    } else {
                        st.class("table:rebuilt-without-growth");
                    }
                }
            }
        }
        if !matches!(op, Op::CloneSwap) && !grew && o.cap > pr.cap && !matches!(op, Op::Clear | Op::Drain { .. }) {
            // capacity() = items + growth_left may go up by reclaiming a tombstone; never beyond the table's nominal capacity
        }
    }
    // growth bound as a state invariant: capacity < max(4 x peak len, 16) or
    // what was explicitly requested
    if let Some((a, b)) = ctx.growth_bound {
        st.rule("C13.bounded");
        if !(o.cap < a || o.cap <= b) {
            viol.push(v(
                p(13),
                "C13.bounded",
                format!("capacity() = {} is neither below max(4 x peak len, 16) = {} nor within the largest explicit request ({})", o.cap, a, b),
            ));
        }
    }

    // ---- C15
    if matches!(op, Op::Retain { .. } | Op::RetainMod { .. }) {
        st.rule("C15.retain");
        if side.pred_calls != r.pred_calls {
            viol.push(v(
                p(15),
                "C15.calls",
                format!("predicate called with (key#, value#) {:?}, expected LRU→MRU once each: {:?}", side.pred_calls, r.pred_calls),
            ));
        }
        let got: Vec<(u32, u64, u64)> = o.entries.iter().map(|x| (x.id, x.kserial, x.vserial)).collect();
        let exp: Vec<(u32, u64, u64)> = r.post.iter().map(|x| (x.id, x.kserial, x.vserial)).collect();
        if got != exp {
            viol.push(v(p(15), "C15.post", format!("after retain the cache holds {:?}, expected {:?}", got, exp)));
        }
        let stat: Vec<(u64, Option<Status>)> =
            r.explicit.iter().flat_map(|x| [x.kserial, x.vserial]).map(|s| (s, reg_status(s))).collect();
        if stat.iter().any(|(_, s)| *s != Some(Status::Dropped)) {
            viol.push(v(p(15) | p(6), "C15.dropped", format!("rejected instances not dropped: {:?}", stat)));
        }
        if o.len != r.post.len() || o.cur as u128 != r.post.iter().map(|x| x.size(e) as u128).sum::<u128>() {
            viol.push(v(p(15), "C15.accounting", format!("len() = {}, current_size() = {} after retain", o.len, o.cur)));
        }
        st.class(match (r.explicit.len(), r.post.len()) {
            (0, 0) => "retain:empty",
            (0, _) => "retain:keep-all",
            (_, 0) => "retain:remove-all",
            _ => "retain:some",
        });
    }

    // ---- C20
    st.rule("C20.hashes");
    {
        let hashes = (c1[Cb::HashK as usize] - c0[Cb::HashK as usize]) + (c1[Cb::HashQ as usize] - c0[Cb::HashQ as usize]);
        let rebuilt = post_dump.buckets != pre.dump.buckets || post_dump.alloc_addr != pre.dump.alloc_addr;
        let rebuild_op = matches!(
            op,
            Op::CloneSwap | Op::Reserve { .. } | Op::TryReserve { .. } | Op::ShrinkTo { .. } | Op::ShrinkToFit
        ) || (matches!(op, Op::Insert { .. } | Op::TryInsert { .. } | Op::InsertRaw { .. }) && rebuilt);
        let zero = matches!(op, Op::Clear | Op::Drain { .. });
        let bound = if zero {
            0
        } else {
            2 + departed.len() as u32 + if rebuild_op { pr.len.max(o.len) as u32 } else { 0 }
        };
        if hashes > bound {
            viol.push(v(
                p(20),
                "C20.hashes",
                format!("{} computed {} key hashes; bound is {} (len {}, {} entries left, table rebuilt: {})", op.show(u), hashes, bound, pr.len, departed.len(), rebuilt),
            ));
        }
        if rebuild_op && rebuilt {
            st.class("hash:rebuild");
        }
    }

    // ---- whole life ends: release everything, drop the cache (C06 terminal: drop)
    let expand = if ctx.fault_props != 0 {
        recorded_ok
    } else if let Some(why) = insane(o, e) {
        let _ = why;
        st.pruned_insane += 1;
        false
    } else {
        true
    };
    ex.release();
    let dropped_ok = catch_unwind(AssertUnwindSafe(|| drop(ex.cache.take())));
    if dropped_ok.is_err() {
        viol.push(v(p(6) | p(7) | ctx.fault_props, "C07.drop-panicked", "dropping the cache panicked".into()));
    }
    st.rule("C06.final");
    for rv in take_reg_violations() {
        viol.push(v(p(6) | p(7) | ctx.fault_props, "C06/C07.registry", rv));
    }
    let still: Vec<u64> = live_serials();
    if !still.is_empty() {
        viol.push(v(p(6), "C06.leak-at-end", format!("after dropping the cache and everything obtained from it, instances {:?} were never dropped", still)));
    }

    viol.retain(|x| x.props & ctx.sel != 0);
    // a self-loop as far as the hook can tell, on the same table allocation, and yet the
    // object's own bytes changed: hidden state (explored separately, never merged)
    let hidden = if expand && !matches!(op, Op::CloneSwap) && post_key == pre.key && raw_pre != raw_post {
        // addresses of the cache's own allocations are not state: words that point at the
        // seal or into the table allocation are compared by what they point at
        let norm = |raw: &[u8], d: &lru_mem::VerifDump| -> Vec<u64> {
            raw.chunks(8)
                .map(|c| {
                    let mut b = [0u8; 8];
                    b[..c.len()].copy_from_slice(c);
                    let w = u64::from_ne_bytes(b);
                    if c.len() < 8 {
                        w
                    } else if w as usize == d.seal {
                        0x5EA1_0000_0000_0000
                    } else if d.alloc_size > 0 && (w as usize) >= d.alloc_addr && (w as usize) <= d.alloc_addr + d.alloc_size {
                        0x7AB1_0000_0000_0000 + (w - d.alloc_addr as u64)
                    } else {
                        w
                    }
                })
                .collect()
        };
        let (a, b) = (norm(&raw_pre, &pre.dump), norm(&raw_post, &post_dump));
        if a != b {
            Some(a.iter().zip(b.iter()).enumerate().filter(|(_, (x, y))| x != y).map(|(i, _)| i as u8).collect())
        } else {
            None
        }
    } else {
        None
    };
    TransOut { post_key: if expand { Some(post_key) } else { None }, viol, machinery: None, hidden }
}

fn ids_of(o: &Obs, serials: &[u64]) -> Vec<u32> {
    serials
        .iter()
        .filter_map(|s| o.entries.iter().find(|x| x.kserial == *s).map(|x| x.id))
        .collect()
}
