//! Per-property exploration plans, evidence and replay files, exit protocol.

use crate::check::*;
use crate::explore::*;
use crate::faults::*;
use crate::seeds::*;
use crate::ops::*;
use crate::statecheck::*;
use crate::types::*;
use serde_json::{json, Value};
use std::collections::{BTreeMap, HashMap};
use std::time::Instant;

pub struct Known {
    pub prop: String,
    pub rule: String,
    pub text: String,
}

pub fn load_known(path: Option<&String>) -> Vec<Known> {
    let mut out = vec![];
    let Some(path) = path else { return out };
    let Ok(s) = std::fs::read_to_string(path) else { return out };
    for line in s.lines() {
        let line = line.trim();
        if let Some(rest) = line.strip_prefix("known:") {
            let mut prop = String::new();
            let mut rule = String::new();
            let mut text = vec![];
            for tok in rest.split_whitespace() {
                if let Some(p) = tok.strip_prefix("property=") {
                    prop = p.to_string();
                } else if let Some(r) = tok.strip_prefix("rule=") {
                    rule = r.to_string();
                } else {
                    text.push(tok);
                }
            }
            if !prop.is_empty() && !rule.is_empty() {
                out.push(Known { prop, rule, text: text.join(" ") });
            }
        }
    }
    out
}

fn parse_caps(s: &str) -> Vec<Option<u32>> {
    s.split(',')
        .map(|x| if x == "none" { None } else { Some(x.parse::<u32>().expect("cap")) })
        .collect()
}

pub struct Phase {
    pub name: String,
    pub result: ExploreResult,
    pub roots: Vec<Root>,
    pub alpha_len: usize,
    pub nkeys: u16,
    pub fault_props: Props,
    /// the universe this phase's operations are interpreted in
    pub u: Universe,
}

pub fn show_history(u: &Universe, cfg: &Config, hist: &[Op], op: Option<&Op>) -> Vec<String> {
    let mut v = vec![format!("let mut cache = {};", cfg.show())];
    for h in hist {
        v.push(format!("{};", h.show(u)));
    }
    if let Some(op) = op {
        v.push(format!("{};   // <- violating step", op.show(u)));
    }
    v
}

fn write_replay(dir: &str, prop: &str, u: &Universe, nkeys: u16, big: bool, root: &Root, vr: &VRec, fault_props: Props) -> String {
    use std::hash::{Hash, Hasher};
    let mut h = std::collections::hash_map::DefaultHasher::new();
    format!("{:?}{:?}{:?}{}", vr.hist, vr.op, root.cfg, vr.rule).hash(&mut h);
    let path = format!("{}/{}-{:016x}.json", dir, prop, h.finish());
    let _ = std::fs::create_dir_all(dir);
    let j = json!({
        "property": prop,
        "rule": vr.rule,
        "detail": vr.detail,
        "mode": vr.mode,
        "fault_props": fault_props,
        "prefix": root.prefix.iter().map(op_to_json).collect::<Vec<_>>(),
        "universe": {"nkeys": nkeys, "big_limits": big, "rich": u.vary_key_heap, "giant": u.vheaps.contains(&(usize::MAX / 2))},
        "config": config_to_json(&root.cfg),
        "history": vr.hist.iter().map(op_to_json).collect::<Vec<_>>(),
        "op": vr.op.as_ref().map(op_to_json),
        "readable": show_history(u, &root.cfg, &vr.hist, vr.op.as_ref()),
    });
    let _ = std::fs::write(&path, serde_json::to_string_pretty(&j).unwrap());
    path
}

pub fn closure_roots(hashers: &[HK], caps: &[Option<u32>], limit: usize) -> Vec<Root> {
    let mut roots = vec![];
    for &hk in hashers {
        for &cap in caps {
            let cfg = Config { hk, cap, limit };
            roots.push(Root { cfg, prefix: vec![], label: cfg.show() });
        }
    }
    roots
}

fn growth_bound(u: &Universe, caps: &[Option<u32>]) -> (usize, usize) {
    let peak = u.nkeys as usize;
    let a = (4 * peak).max(16);
    let mut b = 0usize;
    let maxres = u.reserve_args.iter().copied().filter(|x| *x < 1 << 20).max().unwrap_or(0);
    let mut reqs = vec![peak + maxres, 2];
    for c in caps {
        if let Some(c) = c {
            reqs.push(*c as usize);
        }
    }
    for r in reqs {
        b = b.max(hashbrown::raw::RawTable::<u64>::with_capacity(r).capacity());
    }
    (a, b)
}

pub fn cmd_explore(opt: &HashMap<String, String>) -> i32 {
    let t0 = Instant::now();
    let prop_s = opt.get("prop").cloned().unwrap_or_else(|| "ALL".into());
    let tier = opt.get("tier").cloned().unwrap_or_else(|| "quick".into());
    let thorough = tier == "thorough";
    let seed: i64 = opt.get("seed").and_then(|s| s.parse().ok()).unwrap_or(0);
    let (sel, pnum) = if prop_s == "ALL" {
        (ALL_PROPS, 0)
    } else {
        match parse_prop(&prop_s) {
            Some(n) => (p(n), n),
            None => {
                eprintln!("bad --prop");
                return 2;
            }
        }
    };
    let threads: usize = opt.get("threads").and_then(|s| s.parse().ok()).unwrap_or(16);
    let nkeys: u16 = opt.get("nkeys").and_then(|s| s.parse().ok()).unwrap_or(if thorough { 4 } else { 3 });
    let hashers: Vec<HK> = opt
        .get("hashers")
        .map(|s| s.split(',').map(|x| HK::parse(x).expect("hasher")).collect())
        .unwrap_or_else(|| ALL_HK.to_vec());
    let caps = opt.get("caps").map(|s| parse_caps(s)).unwrap_or_else(|| vec![None, Some(3), Some(8)]);
    let max_depth: usize = opt.get("max-depth").and_then(|s| s.parse().ok()).unwrap_or(64);
    let wall_cap: f64 = opt.get("wall-cap").and_then(|s| s.parse().ok()).unwrap_or(if thorough { 3000.0 } else { 240.0 });
    let d_after: usize = opt.get("d-after").and_then(|s| s.parse().ok()).unwrap_or(if thorough { 2 } else { 1 });
    let skips = crate::contain::load_skips(opt.get("skip-file"));
    let mut depth_caps: HashMap<u64, usize> = HashMap::new();
    if let Some(dc) = opt.get("depth-cap") {
        for part in dc.split(',') {
            let mut it = part.split(':');
            let a = it.next().unwrap_or("");
            let b: Option<usize> = it.next().and_then(|x| x.parse().ok());
            if let Some(b) = b {
                if a == "seeds" {
                    // every seeded phase
                    for ph in 10..400u64 {
                        let e = depth_caps.entry(ph).or_insert(b);
                        *e = (*e).min(b);
                    }
                } else if let Ok(a) = a.parse::<u64>() {
                    let e = depth_caps.entry(a).or_insert(b);
                    *e = (*e).min(b);
                }
            }
        }
    }
    if let Some(mf) = opt.get("marker-file") {
        if !crate::contain::init(mf) {
            eprintln!("warning: cannot create marker file {mf}; running without crash attribution");
        }
    }
    let known = load_known(opt.get("known"));
    let known_rules: Vec<String> = known.iter().map(|k| k.rule.clone()).collect();
    let replay_dir = opt.get("replay-dir").cloned().unwrap_or_else(|| "/verif/replays".into());
    let big = thorough;

    let fault_only = prop_s == "C16" || prop_s == "C17";
    let rich = !(fault_only && !thorough);
    let u = Universe::with_richness(nkeys, big, rich);
    let (hashers, caps) = if fault_only && !thorough && !opt.contains_key("hashers") && !opt.contains_key("caps") {
        (vec![HK::Const, HK::Spread, HK::Sip], vec![None, Some(8)])
    } else {
        (hashers, caps)
    };
    static STOP_MONITOR: std::sync::atomic::AtomicBool = std::sync::atomic::AtomicBool::new(false);
    if let Some(hf) = opt.get("hang-file") {
        let hf = hf.clone();
        let uu = u.clone();
        let deadline: f64 = opt.get("hang-deadline").and_then(|s| s.parse().ok()).unwrap_or(4.0);
        std::thread::Builder::new()
            .name("monitor".into())
            .spawn(move || crate::contain::monitor(deadline, hf, uu, &STOP_MONITOR))
            .expect("monitor thread");
    }
    let gb = growth_bound(&u, &caps);
    let ctx = Ctx { u: &u, sel, growth_bound: Some(gb), fault_props: 0, extra_ids: vec![], known_rules: known_rules.clone() };

    // which state-level checks this property needs
    let want = |n: u32| sel & p(n) != 0;
    let owning = want(12) || want(6);
    let clone = want(14) || want(19) || want(6) || want(7) || want(20);
    let clone_product = if want(14) { 1 } else { 0 };
    let exhaustive_pat_len = if thorough { 10 } else { 8 };
    let trap = want(19);
    let state_opts = StateOpts { exhaustive_pat_len, owning, clone, clone_product, trap, borrow_patterns: true };
    let mut phases: Vec<Phase> = vec![];
    let mut novel: Vec<(usize, Vec<Op>, Vec<u8>)> = vec![];
    let roots = closure_roots(&hashers, &caps, u.limits[u.limits.len() - 2]);
    {
        let alpha = alphabet(&u);
        let alpha_len = alpha.len();
        let mut ex = Explorer::new(&ctx, roots.clone(), alpha);
        let falpha = fault_alphabet(&u);
        let w16 = want(16);
        let w17 = want(17);
        let w13 = want(13);
        let w1 = want(1) && !w16;
        let calpha = crate::faults::closure_alphabet(&u);
        let extra: Option<std::sync::Arc<dyn Fn(&Ctx, &Config, &[Op], &mut Stats) -> ExtraOut + Send + Sync>> = if w16 || w17 || w13 || w1 {
            Some(std::sync::Arc::new(move |ctx: &Ctx, cfg: &Config, hist: &[Op], st: &mut Stats| {
                let mut out = ExtraOut { viol: vec![], novel: vec![] };
                if w1 {
                    // the bound after a panic in a mutate closure / retain predicate (the states reached are not explored further)
                    let o = crate::faults::fault_scan_kinds(ctx, cfg, hist, &calpha, &[Cb::MutPre, Cb::MutPost, Cb::Pred], st);
                    out.viol.extend(o.viol.into_iter().filter(|x| x.rule == "C16.bound" || x.rule == "machinery"));
                }
                if w13 {
                    let o = crate::cap13::alloc_failure_scan(ctx, cfg, hist, st);
                    out.viol.extend(o.viol);
                }
                if w16 {
                    let o = fault_scan(ctx, cfg, hist, &falpha, st);
                    out.viol.extend(o.viol);
                    out.novel.extend(o.novel);
                }
                if w17 {
                    let o = forget_scan(ctx, cfg, hist, exhaustive_pat_len, st);
                    out.viol.extend(o.viol);
                    out.novel.extend(o.novel);
                }
                out
            }))
        } else {
            None
        };
        let eo = ExploreOpts {
            threads,
            max_depth,
            max_states: 30_000_000,
            wall_cap_s: wall_cap,
            state_opts: if fault_only { None } else { Some(state_opts) },
            transitions: true,
            max_violations: 200,
            extra,
            phase: 0,
            skips: skips.clone(),
            depth_cap: depth_caps.get(&0).copied(),
            heavy_depth_limit: None,
            owning_by_shape: !thorough,
            distinct_roots: false,
        };
        let mut result = ex.run(&eo);
        novel = std::mem::take(&mut result.novel);
        phases.push(Phase { name: format!("closure U{}", nkeys), result, roots: roots.clone(), alpha_len, nkeys, fault_props: 0, u: u.clone() });
    }
    // continuation after a fault: every state reached by a fault that is not a
    // state of the closure is explored for d_after further operations
    let verdict_reached = |phases: &Vec<Phase>| phases.iter().any(|ph| !ph.result.violations.is_empty() || ph.result.machinery.is_some());
    let is_hidden = |k: &Vec<u8>| k.windows(crate::faults::HIDDEN_MAGIC.len()).any(|w| w == crate::faults::HIDDEN_MAGIC);
    let is_hidden_t = |k: &Vec<u8>| k.windows(crate::faults::HIDDEN_MAGIC_T.len()).any(|w| w == crate::faults::HIDDEN_MAGIC_T);
    let (mut hidden_t, novel): (Vec<_>, Vec<_>) = novel.into_iter().partition(|(_, _, k)| is_hidden_t(k));
    let (mut hidden, plain): (Vec<_>, Vec<_>) = novel.into_iter().partition(|(_, _, k)| is_hidden(k));
    // hidden-state roots: shortest histories first, a bounded number (they exist only when a fault leaves scratch state behind)
    hidden.sort_by_key(|(r, h, _)| (h.len(), *r));
    {
        // every root configuration (hasher kind, capacity, limit) gets its share
        let mut per_root: std::collections::BTreeMap<usize, usize> = Default::default();
        hidden.retain(|(r, _, _)| {
            let n = per_root.entry(*r).or_insert(0);
            *n += 1;
            *n <= 100
        });
    }
    hidden.truncate(6000);
    let d_hidden = if thorough { 4 } else { 3 };
    for (novel, depth, phase_no, what) in [(plain, d_after, 1u64, "continuation after fault"), (hidden, d_hidden, 4u64, "continuation from post-fault states whose cache object changed although everything the hook reports is as before the faulted operation")] {
    if (want(16) || want(17)) && !novel.is_empty() && !verdict_reached(&phases) {
        let fp = sel & (p(16) | p(17));
        let ctx2 = Ctx { u: &u, sel: fp, growth_bound: None, fault_props: fp, extra_ids: vec![], known_rules: known_rules.clone() };
        let roots2: Vec<Root> = novel
            .iter()
            .map(|(r, h, _)| Root { cfg: roots[*r].cfg, prefix: h.clone(), label: format!("post-fault state after {} steps", h.len()) })
            .collect();
        let alpha = alphabet(&u);
        let alpha_len = alpha.len();
        let mut ex = Explorer::new(&ctx2, roots2.clone(), alpha);
        let falpha = fault_alphabet(&u);
        let second = thorough && want(16);
        let extra: Option<std::sync::Arc<dyn Fn(&Ctx, &Config, &[Op], &mut Stats) -> ExtraOut + Send + Sync>> = if second {
            Some(std::sync::Arc::new(move |ctx: &Ctx, cfg: &Config, hist: &[Op], st: &mut Stats| fault_scan(ctx, cfg, hist, &falpha, st)))
        } else {
            None
        };
        let eo = ExploreOpts {
            threads,
            max_depth: depth,
            max_states: 30_000_000,
            wall_cap_s: wall_cap,
            state_opts: None,
            transitions: true,
            max_violations: 200,
            extra,
            phase: phase_no,
            skips: skips.clone(),
            depth_cap: depth_caps.get(&phase_no).copied(),
            heavy_depth_limit: None,
            owning_by_shape: !thorough,
            distinct_roots: phase_no == 4,
        };
        let result = ex.run(&eo);
        phases.push(Phase { name: format!("{what} (depth {depth})"), result, roots: roots2, alpha_len, nkeys, fault_props: fp, u: u.clone() });
    }
    }

    // Hidden state without a fault: transitions of the closure that are self-loops as far as the
    // hook can tell (same canonical key, same table allocation) although the bytes of the cache
    // object changed. The canonical key cannot tell such a state from its predecessor, so the
    // closure merged them; here each becomes a root of its own, never merged with another root,
    // explored under the ordinary rules. (On the unchanged tree there is no such transition.)
    if !hidden_t.is_empty() && !fault_only && !verdict_reached(&phases) {
        hidden_t.sort_by_key(|(r, h, _)| (h.len(), *r));
        {
            // every root configuration gets its share, and so does every kind of operation
            let mut per_root: std::collections::BTreeMap<usize, usize> = Default::default();
            let mut per_kind: std::collections::HashMap<(usize, std::mem::Discriminant<Op>), usize> = Default::default();
            hidden_t.retain(|(r, h, _)| {
                let kind = std::mem::discriminant(h.last().unwrap());
                let nk = per_kind.entry((*r, kind)).or_insert(0);
                *nk += 1;
                if *nk > 4 {
                    return false;
                }
                let n = per_root.entry(*r).or_insert(0);
                *n += 1;
                *n <= 40
            });
        }
        hidden_t.truncate(if thorough { 1200 } else { 400 });
        let d_hidden = if thorough { 4 } else { 3 };
        let roots5: Vec<Root> = hidden_t
            .iter()
            .map(|(r, h, _)| Root { cfg: roots[*r].cfg, prefix: h.clone(), label: format!("hidden-state root after {} steps", h.len()) })
            .collect();
        if std::env::var_os("LRUMC_DEBUG_HIDDEN").is_some() {
            for (r, h, k) in hidden_t.iter().take(40) {
                eprintln!("hidden root cfg#{r}: {:?} diff {:?}", h.iter().map(|o| o.show(&u)).collect::<Vec<_>>(), &k[k.len().saturating_sub(6)..]);
            }
        }
        let alpha = alphabet(&u);
        let alpha_len = alpha.len();
        let mut ex = Explorer::new(&ctx, roots5.clone(), alpha);
        let so = StateOpts { exhaustive_pat_len, owning: false, clone, clone_product: 0, trap: false, borrow_patterns: false };
        let eo = ExploreOpts {
            threads,
            max_depth: d_hidden,
            max_states: 30_000_000,
            wall_cap_s: wall_cap,
            state_opts: Some(so),
            transitions: true,
            max_violations: 200,
            extra: None,
            phase: 5,
            skips: skips.clone(),
            depth_cap: depth_caps.get(&5).copied(),
            heavy_depth_limit: None,
            owning_by_shape: !thorough,
            distinct_roots: true,
        };
        let result = ex.run(&eo);
        phases.push(Phase { name: format!("continuation from states that an ordinary operation left with a changed cache object although everything the hook reports is unchanged (hidden state; roots never merged; depth {d_hidden})"), result, roots: roots5, alpha_len, nkeys, fault_props: 0, u: u.clone() });
    }

    // quick tier: a fourth key under two well-spread hashers (the full U4 closure is the thorough tier)
    let u4 = Universe::with_richness(4, false, false);
    if !thorough && !fault_only && nkeys == 3 && !opt.contains_key("no-u4") && !verdict_reached(&phases) {
        let roots4 = vec![Root { cfg: Config { hk: HK::Spread, cap: None, limit: u4.limits[u4.limits.len() - 2] }, prefix: vec![], label: "U4 Spread".into() }];
        let gb4 = growth_bound(&u4, &[None, Some(3)]);
        let ctx4 = Ctx { u: &u4, sel, growth_bound: Some(gb4), fault_props: 0, extra_ids: vec![], known_rules: known_rules.clone() };
        let alpha = alphabet(&u4);
        let alpha_len = alpha.len();
        let mut ex = Explorer::new(&ctx4, roots4.clone(), alpha);
        let so = StateOpts { exhaustive_pat_len, owning: false, clone, clone_product: 0, trap, borrow_patterns: true };
        let eo = ExploreOpts {
            threads,
            max_depth,
            max_states: 30_000_000,
            wall_cap_s: wall_cap,
            state_opts: Some(so),
            transitions: true,
            max_violations: 200,
            extra: None,
            phase: 2,
            skips: skips.clone(),
            depth_cap: depth_caps.get(&2).copied(),
            heavy_depth_limit: None,
            owning_by_shape: !thorough,
            distinct_roots: false,
        };
        let result = ex.run(&eo);
        phases.push(Phase { name: "closure U4 (Spread, four value sizes, one size per key)".into(), result, roots: roots4, alpha_len, nkeys: 4, fault_props: 0, u: u4.clone() });
    }

    // sizes near the top of the usize range
    let ug = Universe::giant();
    if !fault_only && !opt.contains_key("no-giant") && !verdict_reached(&phases) {
        let rootsg = vec![
            Root { cfg: Config { hk: HK::Spread, cap: None, limit: usize::MAX }, prefix: vec![], label: "giant sizes, Spread".into() },
            Root { cfg: Config { hk: HK::Const, cap: Some(3), limit: usize::MAX }, prefix: vec![], label: "giant sizes, Const".into() },
        ];
        let ctxg = Ctx { u: &ug, sel, growth_bound: None, fault_props: 0, extra_ids: vec![], known_rules: known_rules.clone() };
        // (a mutate that grows a value to usize::MAX/2 while another such entry is
        // held made lru-mem's running total overflow transiently: repaired, see
        // KNOWN_FINDINGS.txt; rule C11.transient-overflow still watches for it)
        let alpha: Vec<Op> = alphabet(&ug);
        let alpha_len = alpha.len();
        let mut ex = Explorer::new(&ctxg, rootsg.clone(), alpha);
        let so = StateOpts { exhaustive_pat_len, owning: false, clone, clone_product: 0, trap: false, borrow_patterns: true };
        let eo = ExploreOpts {
            threads,
            max_depth,
            max_states: 30_000_000,
            wall_cap_s: wall_cap,
            state_opts: Some(so),
            transitions: true,
            max_violations: 200,
            extra: None,
            phase: 3,
            skips: skips.clone(),
            depth_cap: depth_caps.get(&3).copied(),
            heavy_depth_limit: None,
            owning_by_shape: !thorough,
            distinct_roots: false,
        };
        let result = ex.run(&eo);
        phases.push(Phase { name: "closure: two keys, value sizes {0, 1, usize::MAX/2}, limits up to usize::MAX".into(), result, roots: rootsg, alpha_len, nkeys: 2, fault_props: 0, u: ug.clone() });
    }

    // seeded, depth-bounded exploration from states the closure cannot reach
    let no_seeds = opt.contains_key("no-seeds");
    if !no_seeds && !verdict_reached(&phases) {
        let mut seed_list = seeds(&u, thorough, fault_only && !want(17), &skips);
        if !fault_only {
            let first = 10 + seed_list.len();
            seed_list.extend(dense_seeds(&u, thorough, &skips, first));
        }
        for (seed_idx, sd) in seed_list.into_iter().enumerate() {
            if verdict_reached(&phases) {
                break;
            }
            if let Some((at, why)) = &sd.broken {
                // the deterministic seed script itself breaks the cache on this tree
                let crashed = *at >= sd.root.prefix.len();
                let (hist, op) = if crashed { (sd.root.prefix.clone(), None) } else { (sd.root.prefix[..*at].to_vec(), Some(sd.root.prefix[*at])) };
                let props = (p(7) | p(4) | p(6) | op.map(op_owner).unwrap_or(0) | if crashed && why.contains("no progress") { p(2) } else { 0 }) & sel;
                let mut result = ExploreResult {
                    states: 1,
                    transitions: 1,
                    depth_completed: 0,
                    fixpoint: false,
                    cap_hit: Some("the seed script does not complete coherently".into()),
                    stats: Stats::default(),
                    violations: vec![],
                    machinery: None,
                    samples: vec![],
                    level_sizes: vec![],
                    wall_s: 0.0,
                    novel: vec![],
                    fault_states: 0,
                    known: Default::default(),
                };
                result.stats.transitions = 1;
                result.stats.executions = 1;
                if props != 0 {
                    result.violations.push(VRec {
                        props,
                        rule: if crashed { "containment.crash" } else { "C07.structure" },
                        detail: if crashed { format!("building this state: {why}") } else { format!("after the operation the list/table structure is incoherent: {why}") },
                        root: 0,
                        hist,
                        op,
                        mode: if op.is_some() { "transition" } else { "state" },
                    });
                }
                let mut root = sd.root.clone();
                root.prefix = vec![];
                phases.push(Phase { name: format!("seed {}", sd.root.label), result, roots: vec![root], alpha_len: 0, nkeys, fault_props: 0, u: u.clone() });
                continue;
            }
            let ctx_s = Ctx { u: &u, sel, growth_bound: None, fault_props: 0, extra_ids: sd.extra_ids.clone(), known_rules: known_rules.clone() };
            let so = StateOpts {
                exhaustive_pat_len,
                owning: owning && sd.len <= 64,
                clone,
                clone_product: if clone_product > 0 && sd.len <= 30 { 1 } else { 0 },
                trap,
                borrow_patterns: true,
            };
            let falpha = sd.alpha.clone();
            let w16 = want(16) && sd.len <= 64;
            let w17 = want(17);
            let w13 = want(13);
            let extra: Option<std::sync::Arc<dyn Fn(&Ctx, &Config, &[Op], &mut Stats) -> ExtraOut + Send + Sync>> = if w16 || w17 || w13 {
                Some(std::sync::Arc::new(move |ctx: &Ctx, cfg: &Config, hist: &[Op], st: &mut Stats| {
                    let mut out = ExtraOut { viol: vec![], novel: vec![] };
                    if w13 {
                        let o = crate::cap13::alloc_failure_scan(ctx, cfg, hist, st);
                        out.viol.extend(o.viol);
                    }
                    if w16 {
                        let o = fault_scan(ctx, cfg, hist, &falpha, st);
                        out.viol.extend(o.viol);
                    }
                    if w17 {
                        let o = forget_scan(ctx, cfg, hist, exhaustive_pat_len, st);
                        out.viol.extend(o.viol);
                    }
                    out
                }))
            } else {
                None
            };
            let eo = ExploreOpts {
                threads,
                max_depth: if fault_only { if sd.len > 64 { 0 } else { 1 } } else { sd.depth },
                max_states: 30_000_000,
                wall_cap_s: wall_cap,
                state_opts: if fault_only { None } else { Some(so) },
                transitions: true,
                max_violations: 200,
                extra,
            phase: 10 + seed_idx as u64,
            skips: skips.clone(),
            depth_cap: depth_caps.get(&(10 + seed_idx as u64)).copied(),
            heavy_depth_limit: Some(if thorough { 2 } else { 1 }),
            owning_by_shape: false,
            distinct_roots: false,
            };
            let alpha_len = sd.alpha.len();
            let mut ex = Explorer::new(&ctx_s, vec![sd.root.clone()], sd.alpha.clone());
            let mut result = ex.run(&eo);
            // hidden state without a fault (see phase 5), from the states of this seed: the
            // closure cannot build tombstones, so state that only a tombstone-triggered
            // rebuild consumes is carried on from here
            let mut hidden_s: Vec<(usize, Vec<Op>, Vec<u8>)> = std::mem::take(&mut result.novel).into_iter().filter(|(_, _, k)| is_hidden_t(k)).collect();
            let seed_clean = result.violations.is_empty() && result.machinery.is_none();
            phases.push(Phase { name: format!("seed {}", sd.root.label), result, roots: vec![sd.root.clone()], alpha_len, nkeys, fault_props: 0, u: u.clone() });
            if !hidden_s.is_empty() && seed_clean && !fault_only && sd.len <= 64 {
                hidden_s.sort_by_key(|(_, h, _)| h.len());
                let mut per_kind: std::collections::HashMap<std::mem::Discriminant<Op>, usize> = Default::default();
                hidden_s.retain(|(_, h, _)| {
                    let n = per_kind.entry(std::mem::discriminant(h.last().unwrap())).or_insert(0);
                    *n += 1;
                    *n <= 3
                });
                hidden_s.truncate(12);
                let roots_h: Vec<Root> = hidden_s.iter().map(|(_, h, _)| Root { cfg: sd.root.cfg, prefix: h.clone(), label: format!("hidden-state root in seed {}", sd.root.label) }).collect();
                let mut exh = Explorer::new(&ctx_s, roots_h.clone(), sd.alpha.clone());
                let eoh = ExploreOpts {
                    threads,
                    max_depth: 2,
                    max_states: 30_000_000,
                    wall_cap_s: wall_cap,
                    state_opts: Some(StateOpts { exhaustive_pat_len, owning: false, clone, clone_product: 0, trap: false, borrow_patterns: false }),
                    transitions: true,
                    max_violations: 200,
                    extra: None,
                    phase: 6,
                    skips: skips.clone(),
                    depth_cap: depth_caps.get(&6).copied(),
                    heavy_depth_limit: Some(0),
                    owning_by_shape: false,
                    distinct_roots: true,
                };
                let result = exh.run(&eoh);
                phases.push(Phase { name: format!("hidden-state continuation in seed {} (roots never merged, depth 2)", sd.root.label), result, roots: roots_h, alpha_len, nkeys, fault_props: 0, u: u.clone() });
            }
        }
    }

    // ladder: every fill level n up to a bound, one step over a generic alphabet
    if !no_seeds && !fault_only && !opt.contains_key("no-ladder") && !verdict_reached(&phases) {
        // (hasher, largest n, depth)
        let ladders: Vec<(HK, usize, usize)> = if thorough {
            vec![(HK::Spread, 1200, 1), (HK::Sip, 600, 1), (HK::Const, 128, 1), (HK::SameTag, 600, 1), (HK::SamePos, 64, 1), (HK::Spread, 160, 2), (HK::Const, 40, 2), (HK::Sip, 64, 3)]
        } else {
            vec![(HK::Spread, 300, 1), (HK::Sip, 130, 1), (HK::Const, 48, 1), (HK::Spread, 72, 2), (HK::Const, 20, 2)]
        };
        for (li, (hk, n_max, ldepth)) in ladders.into_iter().enumerate() {
            if verdict_reached(&phases) {
                break;
            }
            let (lroots, lalpha) = ladder(&u, hk, n_max);
            let ctx_l = Ctx { u: &u, sel, growth_bound: None, fault_props: 0, extra_ids: vec![], known_rules: known_rules.clone() };
            let so = StateOpts { exhaustive_pat_len: 6, owning, clone, clone_product: 0, trap, borrow_patterns: true };
            let phase_no = 500 + li as u64;
            let eo = ExploreOpts {
                threads,
                max_depth: ldepth,
                max_states: 30_000_000,
                wall_cap_s: wall_cap,
                state_opts: Some(so),
                transitions: true,
                max_violations: 200,
                extra: None,
                phase: phase_no,
                skips: skips.clone(),
                depth_cap: depth_caps.get(&phase_no).copied(),
                heavy_depth_limit: Some(0),
                owning_by_shape: false,
                distinct_roots: false,
            };
            let alpha_len = lalpha.len();
            let mut ex = Explorer::new(&ctx_l, lroots.clone(), lalpha);
            let result = ex.run(&eo);
            phases.push(Phase { name: format!("ladder: n = 0..={} fresh insertions ({}), natural and requested capacity, all sequences of <= {} steps", n_max, hk.name(), ldepth), result, roots: lroots, alpha_len, nkeys, fault_props: 0, u: u.clone() });
        }
    }

    // C06 / C12 / C17: the same life-cycle sweep with only the key or only the value having drop glue
    if (want(2) || want(6) || want(12) || want(17)) && !opt.contains_key("no-typevar") && !verdict_reached(&phases) {
        let depth = if thorough { 4 } else { 3 };
        let r = crate::typevar::explore(depth, sel);
        let mut stats = Stats::default();
        stats.transitions = r.lives;
        stats.executions = r.lives;
        *stats.rule_evals.entry("C06.type-variant / C02.type-variant").or_insert(0) += r.lives;
        let cfg = Config { hk: HK::Const, cap: None, limit: usize::MAX };
        let root = Root { cfg, prefix: vec![], label: "LruCache<tracked K, u64>, LruCache<u32, tracked V>, LruCache<u8, u64>, LruCache<K, V whose clone is smaller>".into() };
        let violations = r
            .violations
            .into_iter()
            .map(|x| VRec { props: x.props, rule: x.rule, detail: x.detail, root: 0, hist: vec![], op: None, mode: "typevar" })
            .collect();
        let result = ExploreResult {
            states: r.states,
            transitions: r.lives,
            depth_completed: depth,
            fixpoint: true,
            cap_hit: None,
            stats,
            violations,
            machinery: None,
            samples: vec![],
            level_sizes: vec![],
            wall_s: 0.0,
            novel: vec![],
            fault_states: 0,
            known: Default::default(),
        };
        phases.push(Phase { name: format!("type variants: all op sequences <= {depth} (+1 for accounting) over 14 operations; drop glue on key only / value only, padded inline sizes, value whose clone has a smaller size estimate"), result, roots: vec![root], alpha_len: 13, nkeys, fault_props: 0, u: u.clone() });
    }

    // other instantiations of K, V, S: differential check against the reference
    let inst_props: Props = [1, 2, 3, 4, 5, 6, 7, 10, 11, 12, 13, 14, 15, 17, 19, 20].iter().fold(0, |a, i| a | p(*i));
    if sel & inst_props != 0 && !opt.contains_key("no-instvar") && std::env::var_os("LRUMC_NO_INSTVAR").is_none() && !verdict_reached(&phases) {
        let depth = if thorough { 4 } else { 3 };
        let t0 = std::time::Instant::now();
        let ladder = if thorough { 300 } else { 40 };
        let iskips: Vec<(String, String)> = skips.iter().filter(|x| x.kind == 4).filter_map(|x| x.raw.clone().map(|r| (r, x.reason.clone()))).collect();
        crate::contain::set_phase(9000);
        // a step that killed or stalled an earlier attempt and is owned by this property decides the check
        let owned: Vec<Violation> = iskips
            .iter()
            .filter_map(|(raw, why)| {
                let (props, text) = crate::instvar::owned_by_why(raw, why);
                (props & sel != 0 && !raw.contains(":01")).then(|| Violation { props, rule: "C07.crash", detail: format!("{}: {why}", text.join("; ")) })
            })
            .collect();
        let r = if owned.is_empty() {
            crate::instvar::explore_for(sel, depth, ladder, if thorough { 6 } else { 5 }, if thorough { &[5000, 20000, 70000, 300000][..] } else { &[5000, 20000, 70000][..] }, threads, &iskips)
        } else {
            crate::instvar::InstResult { violations: owned, ..Default::default() }
        };
        let mut stats = Stats::default();
        stats.transitions = r.checks;
        stats.executions = r.steps;
        *stats.rule_evals.entry("instantiation-variant rules (C01 C02 C04 C05 C07 C11 C12 C13 C14 C15 C19 C20)").or_insert(0) += r.checks;
        for c in &r.outcomes {
            *stats.classes.entry(c).or_insert(0) += 1;
        }
        let cfg = Config { hk: HK::Const, cap: None, limit: usize::MAX };
        let root = Root { cfg, prefix: vec![], label: "11 instantiations of LruCache<K, V, S> x {constant, spread} hasher x {unbounded, tight} start".into() };
        let violations = r
            .violations
            .into_iter()
            .map(|x| VRec { props: x.props, rule: x.rule, detail: x.detail, root: 0, hist: vec![], op: None, mode: "instvar" })
            .collect();
        let result = ExploreResult {
            // sequences are executions, not deduplicated states: they count as checked transitions only
            states: 0,
            transitions: r.checks,
            depth_completed: depth,
            fixpoint: true,
            cap_hit: None,
            stats,
            violations,
            machinery: None,
            samples: vec![],
            level_sizes: vec![],
            wall_s: t0.elapsed().as_secs_f64(),
            novel: vec![],
            fault_states: 0,
            known: Default::default(),
        };
        phases.push(Phase { name: format!("instantiation variants: all operation sequences <= {depth} over ~60 operations (incl. clone_from, failing reservations, forgotten drain) for 11 instantiations (a hash builder whose clone hashes differently, plain data with varying size estimate and non-bitwise Clone, String/&str, PathBuf / &Path in another spelling, zero-sized key, zero-sized value, 32-byte aligned value, 200-byte inline value, default hasher, drop glue on one side); sequences of 1 and of <= 2 operations are judged in passes of their own first"), result, roots: vec![root], alpha_len: 60, nkeys, fault_props: 0, u: u.clone() });
    }

    // C16 on the other instantiations (C05: the order of what remains after a caught panic)
    if (want(16) || want(5)) && !opt.contains_key("no-instvar") && std::env::var_os("LRUMC_NO_INSTVAR").is_none() && !verdict_reached(&phases) {
        let depth = if thorough { 3 } else { 2 };
        let t0 = std::time::Instant::now();
        let iskips: Vec<(String, String)> = skips.iter().filter(|x| x.kind == 4).filter_map(|x| x.raw.clone().map(|r| (r, x.reason.clone()))).collect();
        crate::contain::set_phase(9001);
        let owned: Vec<Violation> = iskips
            .iter()
            .filter_map(|(raw, why)| {
                let (props, text) = crate::instvar::owned_by(raw);
                (props == p(16)).then(|| Violation { props, rule: "postfault.crash", detail: format!("{}: {why}", text.join("; ")) })
            })
            .collect();
        let r = if owned.is_empty() {
            crate::instvar::explore_faults(depth, if thorough { &[5, 9, 17, 20, 29, 33, 40, 57, 70, 113, 130][..] } else { &[9, 17, 20, 33, 70][..] }, threads, &iskips)
        } else {
            crate::instvar::InstResult { violations: owned, ..Default::default() }
        };
        let mut stats = Stats::default();
        stats.transitions = r.faults;
        stats.executions = r.checks;
        *stats.rule_evals.entry("postfault.* on instantiation variants").or_insert(0) += r.faults;
        for c in &r.outcomes {
            *stats.classes.entry(c).or_insert(0) += 1;
        }
        let cfg = Config { hk: HK::Const, cap: None, limit: usize::MAX };
        let root = Root { cfg, prefix: vec![], label: "8 instantiations of LruCache<K, V, S> x {constant, spread} hasher x 5 prefixes x {unbounded, exactly full}".into() };
        let violations = r
            .violations
            .into_iter()
            .filter(|x| x.props & sel != 0)
            .map(|x| VRec { props: x.props, rule: x.rule, detail: x.detail, root: 0, hist: vec![], op: None, mode: "instvar-faults" })
            .collect();
        let result = ExploreResult {
            states: 0,
            transitions: r.faults,
            depth_completed: depth,
            fixpoint: true,
            cap_hit: None,
            stats,
            violations,
            machinery: None,
            samples: vec![],
            level_sizes: vec![],
            wall_s: t0.elapsed().as_secs_f64(),
            novel: vec![],
            fault_states: 0,
            known: Default::default(),
        };
        phases.push(Phase { name: format!("instantiation variants under fault injection: every operation sequence <= {depth}, the last operation with a panic at every index of every callback kind it reaches (hash, eq, clone, size estimate, closure, predicate); post-fault oracle, 12-step use battery, drop"), result, roots: vec![root], alpha_len: 60, nkeys, fault_props: p(16), u: u.clone() });
    }

    // C13: parametric families (the quantifier is over a number)
    if want(13) && !opt.contains_key("no-families") && !verdict_reached(&phases) {
        let fams: Vec<(String, crate::cap13::FamOut)> = vec![
            (format!("with_capacity(n) + n fresh insertions, n <= {}", if thorough { 2048 } else { 96 }), crate::cap13::with_capacity_family(if thorough { 2048 } else { 96 })),
            (format!("churn at constant length L <= {}, 3 removal positions, 10 x capacity steps", if thorough { 64 } else { 40 }), crate::cap13::churn_family(if thorough { 64 } else { 40 })),
        ];
        for (name, f) in fams {
            let mut stats = Stats::default();
            stats.transitions = f.evaluations;
            stats.executions = f.cases;
            stats.replays_validated = 0;
            *stats.rule_evals.entry("C13.family").or_insert(0) += f.evaluations;
            let cfg = Config { hk: HK::Spread, cap: None, limit: usize::MAX };
            let root = Root { cfg, prefix: vec![], label: name.clone() };
            let violations = f
                .viol
                .into_iter()
                .map(|(rule, detail)| VRec { props: p(13), rule, detail, root: 0, hist: vec![], op: None, mode: "family" })
                .collect();
            let result = ExploreResult {
                states: f.cases as usize,
                transitions: f.evaluations,
                depth_completed: 0,
                fixpoint: true,
                cap_hit: None,
                stats,
                violations,
                machinery: None,
                samples: vec![],
                level_sizes: vec![],
                wall_s: 0.0,
                novel: vec![],
                fault_states: 0,
                known: Default::default(),
            };
            phases.push(Phase { name: format!("family: {name}"), result, roots: vec![root], alpha_len: 0, nkeys, fault_props: 0, u: u.clone() });
        }
    }

    // C04: a second instantiation with unsized borrowed keys that alias stored keys
    if want(4) && !opt.contains_key("no-strmap") && !verdict_reached(&phases) {
        let nk = if thorough { 5 } else { 4 };
        for hk in ALL_HK {
            let r = crate::strmap::explore(hk, nk, p(4));
            let mut stats = Stats::default();
            stats.transitions = r.transitions;
            stats.executions = r.transitions;
            stats.replays_validated = r.transitions;
            *stats.rule_evals.entry("C04.borrowed-form").or_insert(0) += r.transitions;
            let cfg = Config { hk, cap: None, limit: usize::MAX };
            let root = Root { cfg, prefix: vec![], label: format!("LruCache<&'static str, V, {}> with keys that are overlapping slices of one buffer", hk.name()) };
            let violations = r
                .violations
                .into_iter()
                .map(|x| VRec { props: x.props, rule: x.rule, detail: x.detail, root: 0, hist: vec![], op: None, mode: "strmap" })
                .collect();
            let result = ExploreResult {
                states: r.states,
                transitions: r.transitions,
                depth_completed: 0,
                fixpoint: true,
                cap_hit: None,
                stats,
                violations,
                machinery: None,
                samples: vec![],
                level_sizes: vec![],
                wall_s: 0.0,
                novel: vec![],
                fault_states: 0,
                known: Default::default(),
            };
            phases.push(Phase { name: format!("str-keyed closure ({} keys, {})", nk, hk.name()), result, roots: vec![root], alpha_len: 0, nkeys, fault_props: 0, u: u.clone() });
        }
    }

    finish(&prop_s, pnum, &tier, seed, &u, big, phases, &known, &replay_dir, opt.get("out"), t0)
}

#[allow(clippy::too_many_arguments)]
pub fn finish(
    prop_s: &str,
    _pnum: u32,
    tier: &str,
    seed: i64,
    u: &Universe,
    big: bool,
    phases: Vec<Phase>,
    known: &[Known],
    replay_dir: &str,
    out: Option<&String>,
    t0: Instant,
) -> i32 {
    let mut machinery: Option<String> = None;
    let mut n_viol = 0usize;
    let mut known_hits: BTreeMap<String, (String, u64)> = BTreeMap::new();
    let mut printed: BTreeMap<(String, &'static str), usize> = BTreeMap::new();
    let mut lines: Vec<String> = vec![];
    let mut total_states = 0usize;
    let mut total_trans = 0u64;
    let mut total_valid = 0u64;
    let mut total_exec = 0u64;
    let mut classes: BTreeMap<&'static str, u64> = BTreeMap::new();
    let mut rules: BTreeMap<&'static str, u64> = BTreeMap::new();
    let mut samples: Vec<Value> = vec![];
    let mut phase_json: Vec<Value> = vec![];
    let mut exhaustive = true;
    for ph in &phases {
        let r = &ph.result;
        if let Some(m) = &r.machinery {
            machinery = Some(format!("{}: {}", ph.name, m));
        }
        total_states += r.states;
        total_trans += r.transitions;
        total_valid += r.stats.replays_validated;
        total_exec += r.stats.executions;
        for (k, v) in &r.stats.classes {
            *classes.entry(k).or_insert(0) += v;
        }
        for (k, v) in &r.stats.rule_evals {
            *rules.entry(k).or_insert(0) += v;
        }
        // the depth bound of a seeded phase is a stated bound of a finite space
        // that was enumerated completely; any other cap means "not exhaustive"
        if !r.fixpoint && !r.cap_hit.as_deref().map(|c| c.starts_with("depth bound")).unwrap_or(false) {
            exhaustive = false;
        }
        for (root, hist) in r.samples.iter().take(if ph.name.starts_with("seed") { 1 } else { 4 }) {
            let mut lines = show_history(&ph.u, &ph.roots[*root].cfg, hist, None);
            if lines.len() > 24 {
                let n = lines.len();
                let mut short: Vec<String> = lines[..8].to_vec();
                short.push(format!("... ({} more steps of the deterministic seed script) ...", n - 20));
                short.extend(lines[n - 12..].iter().cloned());
                lines = short;
            }
            samples.push(json!({"phase": ph.name, "witness_history": lines}));
        }
        phase_json.push(json!({
            "phase": ph.name,
            "roots": ph.roots.iter().take(12).map(|r| r.label.clone()).collect::<Vec<_>>(),
            "roots_total": ph.roots.len(),
            "alphabet_size": ph.alpha_len,
            "states": r.states,
            "transitions": r.transitions,
            "fixpoint_reached": r.fixpoint,
            "depth_completed": r.depth_completed,
            "level_sizes": r.level_sizes,
            "cap_hit": r.cap_hit,
            "pruned_corrupt_states": r.stats.pruned_corrupt,
            "pruned_insane_states": r.stats.pruned_insane,
            "wall_s": r.wall_s,
        }));
        for (rule, (cnt, vr)) in &r.known {
            for n in (1..=20u32).filter(|n| vr.props & p(*n) != 0) {
                let pname = prop_name(n);
                if prop_s != "ALL" && pname != prop_s {
                    continue;
                }
                if let Some(k) = known.iter().find(|k| k.prop == pname && k.rule == *rule) {
                    let e = known_hits.entry(format!("{} {}", pname, k.rule)).or_insert((k.text.clone(), 0));
                    e.1 += cnt;
                }
            }
        }
        for vr in &r.violations {
            // attribute to the selected property (or each property when ALL)
            let props: Vec<u32> = (1..=20).filter(|n| vr.props & p(*n) != 0).collect();
            for n in props {
                let pname = prop_name(n);
                if prop_s != "ALL" && pname != prop_s {
                    continue;
                }
                if let Some(k) = known.iter().find(|k| k.prop == pname && k.rule == vr.rule) {
                    let e = known_hits.entry(format!("{} {}", pname, k.rule)).or_insert((k.text.clone(), 0));
                    e.1 += 1;
                    continue;
                }
                n_viol += 1;
                let cnt = printed.entry((pname.clone(), vr.rule)).or_insert(0);
                *cnt += 1;
                if *cnt <= 2 {
                    let path = write_replay(replay_dir, &pname, &ph.u, ph.nkeys, big, &ph.roots[vr.root], vr, ph.fault_props);
                    lines.push(format!("VIOLATION property={} replay={}", pname, path));
                    let mut d = vr.detail.clone();
                    if d.len() > 900 {
                        let mut cut = 900;
                        while !d.is_char_boundary(cut) {
                            cut -= 1;
                        }
                        d.truncate(cut);
                        d.push_str(" ... (full text in the replay file)");
                    }
                    lines.push(format!("  rule {}: {}", vr.rule, d));
                    let hl = show_history(&ph.u, &ph.roots[vr.root].cfg, &vr.hist, vr.op.as_ref());
                    if hl.len() > 40 {
                        // long seed scripts: first and last lines only
                        for l in hl[..6].iter() {
                            lines.push(format!("    {l}"));
                        }
                        lines.push(format!("    ... ({} more steps, see the replay file) ...", hl.len() - 16));
                        for l in hl[hl.len() - 10..].iter() {
                            lines.push(format!("    {l}"));
                        }
                        continue;
                    }
                    for l in show_history(&ph.u, &ph.roots[vr.root].cfg, &vr.hist, vr.op.as_ref()) {
                        lines.push(format!("    {l}"));
                    }
                }
            }
        }
    }
    let wall = t0.elapsed().as_secs_f64();
    if let Some(m) = &machinery {
        eprintln!("MACHINERY ERROR: {m}");
        return 2;
    }
    for (k, (text, n)) in &known_hits {
        let mut it = k.split(' ');
        let pn = it.next().unwrap();
        println!("KNOWN-FINDING: property={} {} ({} occurrences in this run, rule {})", pn, text, n, it.next().unwrap());
    }
    for l in &lines {
        println!("{l}");
    }
    let distinct_classes = classes.len();
    let distinct_nontrivial = total_states;
    println!(
        "{}: tier={} states={} transitions={} executions={} replays_validated={} outcome_classes={} exhaustive={} violations={} wall={:.1}s",
        prop_s, tier, total_states, total_trans, total_exec, total_valid, distinct_classes, exhaustive, n_viol, wall
    );
    if let Some(out) = out {
        let ev = json!({
            "property_id": prop_s,
            "tier": tier,
            "seed": seed,
            "level": if prop_s == "C16" || prop_s == "C17" { "fault_enumeration" } else { "model_checking" },
            "coverage": {
                "evaluations": total_exec.max(1),
                "distinct_nontrivial": distinct_nontrivial,
                "rule": "cases = executions of one operation (or one fault point of one operation) on the real cache rebuilt in one reachable state; distinct_nontrivial = number of distinct canonical states of the real cache that were reached and expanded (each differs from every other in its concrete table/list representation)",
                "states": total_states,
                "transitions": total_trans.max(1),
                "traces_validated_against_impl": total_valid,
                "samples": samples,
                "exhaustive": exhaustive,
                "executions": total_exec,
                "phases": phase_json,
                "outcome_classes": classes,
                "rule_evaluations": rules,
                "known_findings_hit": known_hits.iter().map(|(k, v)| json!({"finding": k, "occurrences": v.1})).collect::<Vec<_>>(),
                "universe": {"keys": u.nkeys, "value_heaps": u.vheaps, "limits": u.limits.iter().map(|x| fmt_big(*x)).collect::<Vec<_>>(), "entry_overhead": u.e},
                "explanation": "Explicit-state exploration of the real LruCache (no separate model): every state is rebuilt by replaying its witness history on the code under test; traces_validated_against_impl counts those replays, each of which had to reproduce the stored canonical state bit for bit.",
            },
            "assumptions": [
                "canonicalisation argument of DESIGN.md 3.4 (absolute addresses and instance serials are unobservable to the code under test)",
                "reference semantics of DESIGN.md 3.10",
                "rustc/cargo; hashbrown is executed, not modelled",
            ],
            "wall_s": wall,
            "violations": n_viol,
        });
        if let Some(parent) = std::path::Path::new(out).parent() {
            let _ = std::fs::create_dir_all(parent);
        }
        std::fs::write(out, serde_json::to_string_pretty(&ev).unwrap()).expect("write evidence");
    }
    if n_viol > 0 {
        1
    } else {
        0
    }
}

pub fn cmd_replay(opt: &HashMap<String, String>) -> i32 {
    let Some(file) = opt.get("file") else {
        eprintln!("--file required");
        return 2;
    };
    let Ok(s) = std::fs::read_to_string(file) else {
        eprintln!("cannot read {file}");
        return 2;
    };
    let Ok(j) = serde_json::from_str::<Value>(&s) else {
        eprintln!("bad json");
        return 2;
    };
    let prop = j["property"].as_str().unwrap_or("ALL").to_string();
    let sel = parse_prop(&prop).map(p).unwrap_or(ALL_PROPS);
    let nkeys = j["universe"]["nkeys"].as_u64().unwrap_or(3) as u16;
    let big = j["universe"]["big_limits"].as_bool().unwrap_or(false);
    let rich = j["universe"]["rich"].as_bool().unwrap_or(true);
    let u = if j["universe"]["giant"].as_bool().unwrap_or(false) { Universe::giant() } else { Universe::with_richness(nkeys, big, rich) };
    let Some(cfg) = config_from_json(&j["config"]) else {
        eprintln!("bad config");
        return 2;
    };
    let mut hist: Vec<Op> = j["history"].as_array().map(|a| a.iter().filter_map(op_from_json).collect()).unwrap_or_default();
    let op = op_from_json(&j["op"]);
    let mode = j["mode"].as_str().unwrap_or("transition").to_string();
    let fault_props = j["fault_props"].as_u64().unwrap_or(0) as Props;
    let ctx = Ctx { u: &u, sel, growth_bound: None, fault_props, extra_ids: vec![], known_rules: vec![] };
    let mut st = Stats::default();
    let mut viols: Vec<(String, String)> = vec![];
    for l in show_history(&u, &cfg, &hist, op.as_ref()) {
        println!("  {l}");
    }
    match (mode.as_str(), op) {
        ("instvar-faults", _) => {
            let r = crate::instvar::explore_faults(2, &[9, 17, 20, 33, 70], 16, &[]);
            for x in r.violations {
                viols.push((x.rule.to_string(), x.detail));
            }
        }
        ("instvar", _) => {
            let r = crate::instvar::explore(3, 40, 5, &[5000, 20000, 70000], 16, &[]);
            for x in r.violations {
                if x.props & sel != 0 {
                    viols.push((x.rule.to_string(), x.detail));
                }
            }
        }
        ("typevar", _) => {
            let r = crate::typevar::explore(3, sel);
            for x in r.violations {
                viols.push((x.rule.to_string(), x.detail));
            }
        }
        ("family", _) => {
            for f in [crate::cap13::with_capacity_family(96), crate::cap13::churn_family(40)] {
                for (rule, detail) in f.viol {
                    viols.push((rule.to_string(), detail));
                }
            }
        }
        ("fault", Some(op @ Op::TryReserve { .. })) if prop == "C13" => {
            let eo = crate::cap13::alloc_failure_scan(&ctx, &cfg, &hist, &mut st);
            for x in eo.viol {
                if x.op == Some(op) {
                    viols.push((x.rule.to_string(), x.detail));
                }
            }
        }
        ("strmap", _) => {
            for nk in [4usize, 5] {
                let r = crate::strmap::explore(cfg.hk, nk, p(4));
                for x in r.violations {
                    viols.push((x.rule.to_string(), x.detail));
                }
                if !viols.is_empty() {
                    break;
                }
            }
        }
        ("fault", op) => {
            // the fault scan re-enumerates every fault point of the operation
            // (C16) or every leak point of every iterator (C17) in that state
            while matches!(hist.last(), Some(Op::ArmFuel { .. }) | Some(Op::DrainForget { .. })) {
                hist.pop();
            }
            let eo = if let Some(op) = op {
                fault_scan(&ctx, &cfg, &hist, &[op], &mut st)
            } else {
                forget_scan(&ctx, &cfg, &hist, 10, &mut st)
            };
            for x in eo.viol {
                viols.push((x.rule.to_string(), x.detail));
            }
        }
        (_, Some(op)) => {
            let ref_pre = crate::refmodel::replay(&u, (vec![], cfg.limit), &hist);
            let t = run_transition_h(&ctx, &cfg, &hist, op, None, ref_pre.as_ref(), &mut st);
            if let Some(m) = t.machinery {
                eprintln!("MACHINERY ERROR: {m}");
                return 2;
            }
            for x in t.viol {
                viols.push((x.rule.to_string(), x.detail));
            }
        }
        (_, None) => {
            let so = StateOpts { exhaustive_pat_len: 10, owning: true, clone: true, clone_product: 1, trap: true, borrow_patterns: true };
            let r = check_state(&ctx, &cfg, &hist, None, &so, &mut st);
            if let Some(m) = r.machinery {
                eprintln!("MACHINERY ERROR: {m}");
                return 2;
            }
            for x in r.viol {
                viols.push((x.rule.to_string(), x.detail));
            }
        }
    }
    if viols.is_empty() {
        println!("replay: no violation of {prop} reproduced");
        0
    } else {
        for (r, d) in viols.iter().take(10) {
            println!("  rule {}: {}", r, d);
        }
        println!("VIOLATION property={} replay={}", prop, file);
        1
    }
}
