#!/usr/bin/env python3
"""C18 probe engine: enumerates the complete auto-trait lattice and the
API x conflicting-use matrix as small programs and uses rustc as the
accept/reject oracle (DESIGN.md, C18).

    run_probes.py --tier quick|thorough --out evidence.json --replay-dir DIR [--replay FILE]

Exit 0 / 1 / 2 like every other check.
"""
import concurrent.futures
import hashlib
import itertools
import json
import os
import subprocess
import sys
import time

VERIF = os.path.dirname(os.path.dirname(os.path.abspath(__file__)))
MC = os.path.join(VERIF, "mc")
TARGET = os.path.join(VERIF, "target", "stable")
WORK = os.path.join(VERIF, "target", "probes")

PRELUDE = """#![allow(unused, dead_code)]
use lru_mem::LruCache;
use std::cell::Cell;
use std::marker::PhantomData;
use std::sync::MutexGuard;
use std::hash::{BuildHasher, Hasher};

pub struct Both;                                                // Send + Sync
pub struct SendOnly(Cell<u8>);                                  // Send, !Sync
pub struct SyncOnly(PhantomData<MutexGuard<'static, u8>>);      // Sync, !Send
pub struct Neither(PhantomData<*const u8>);                     // !Send, !Sync

fn assert_send<T: Send>() {}
fn assert_sync<T: Sync>() {}
fn touch<T>(_: T) {}
"""

MARKERS = [("Both", True, True), ("SendOnly", True, False), ("SyncOnly", False, True), ("Neither", False, False)]


def lattice_probes():
    out = []
    for (k, v, s) in itertools.product(MARKERS, repeat=3):
        for trait, idx in (("Send", 1), ("Sync", 2)):
            ok = k[idx] and v[idx] and s[idx]
            body = "pub fn probe() { assert_%s::<LruCache<%s, %s, %s>>(); }\n" % (trait.lower(), k[0], v[0], s[0])
            out.append({
                "name": "lattice/%s/K=%s,V=%s,S=%s" % (trait, k[0], v[0], s[0]),
                "src": PRELUDE + body,
                "expect": "accept" if ok else "reject",
                "codes": [] if ok else ["E0277"],
                "group": "lattice",
            })
    return out


def generic_probes():
    out = []
    for trait in ("Send", "Sync"):
        for missing in (None, "K", "V", "S"):
            bounds = ", ".join("%s%s" % (p, "" if p == missing else ": " + trait) for p in ("K", "V", "S"))
            body = "pub fn probe<%s>() { assert_%s::<LruCache<K, V, S>>(); }\n" % (bounds, trait.lower())
            out.append({
                "name": "generic/%s/missing=%s" % (trait, missing),
                "src": PRELUDE + body,
                "expect": "accept" if missing is None else "reject",
                "codes": [] if missing is None else ["E0277"],
                "group": "generic",
            })
        # the bound is exactly per-parameter: a type that is the trait only when
        # all three are must not make the cache the trait if one is missing
        for pos in range(3):
            params = ["Both", "Both", "Both"]
            params[pos] = "Neither"
            body = "pub fn probe() { assert_%s::<LruCache<%s>>(); }\n" % (trait.lower(), ", ".join(params))
            out.append({
                "name": "witness/%s/pos=%d" % (trait, pos),
                "src": PRELUDE + body,
                "expect": "reject",
                "codes": ["E0277"],
                "group": "generic",
            })
    return out


# (name, receiver is &mut, expression producing the borrow from `cache`)
APIS = [
    ("get", True, 'cache.get("a")'),
    ("get_entry", True, 'cache.get_entry("a")'),
    ("get_lru", True, "cache.get_lru()"),
    ("peek", False, 'cache.peek("a")'),
    ("peek_entry", False, 'cache.peek_entry("a")'),
    ("peek_lru", False, "cache.peek_lru()"),
    ("peek_mru", False, "cache.peek_mru()"),
    ("iter", False, "cache.iter()"),
    ("keys", False, "cache.keys()"),
    ("values", False, "cache.values()"),
    ("drain", True, "cache.drain()"),
    ("hasher", False, "cache.hasher()"),
    ("iter().next()", False, "cache.iter().next()"),
    ("iter().next_back()", False, "cache.iter().next_back()"),
    ("keys().next()", False, "cache.keys().next()"),
    ("values().next()", False, "cache.values().next()"),
    ("iter().rev().last()", False, "cache.iter().rev().last()"),
]

CTYPE = "LruCache<String, String>"


def borrow_probes():
    out = []
    for (name, is_mut, expr) in APIS:
        # 1. &mut method while the borrow is held
        conflict = "pub fn probe(mut cache: %s) {\n    let r = %s;\n    cache.clear();\n    touch(r);\n}\n" % (CTYPE, expr)
        twin = "pub fn probe(mut cache: %s) {\n    let r = %s;\n    touch(r);\n    cache.clear();\n}\n" % (CTYPE, expr)
        out.append({"name": "borrow/%s/mutate-while-held" % name, "src": PRELUDE + conflict, "expect": "reject",
                    "codes": ["E0499"] if is_mut else ["E0502"], "group": "borrow"})
        out.append({"name": "borrow/%s/mutate-after-release (twin)" % name, "src": PRELUDE + twin, "expect": "accept", "codes": [], "group": "borrow-twin"})
        # 1b. insertion while held (a different &mut method, takes ownership of arguments)
        conflict = "pub fn probe(mut cache: %s) {\n    let r = %s;\n    let _ = cache.insert(String::new(), String::new());\n    touch(r);\n}\n" % (CTYPE, expr)
        out.append({"name": "borrow/%s/insert-while-held" % name, "src": PRELUDE + conflict, "expect": "reject",
                    "codes": ["E0499"] if is_mut else ["E0502"], "group": "borrow"})
        # 2. moving / dropping the cache while held
        conflict = "pub fn probe(mut cache: %s) {\n    let r = %s;\n    drop(cache);\n    touch(r);\n}\n" % (CTYPE, expr)
        twin = "pub fn probe(mut cache: %s) {\n    let r = %s;\n    touch(r);\n    drop(cache);\n}\n" % (CTYPE, expr)
        out.append({"name": "borrow/%s/drop-while-held" % name, "src": PRELUDE + conflict, "expect": "reject", "codes": ["E0505"], "group": "borrow"})
        out.append({"name": "borrow/%s/drop-after-release (twin)" % name, "src": PRELUDE + twin, "expect": "accept", "codes": [], "group": "borrow-twin"})
        # 2b. consuming the cache (into_iter) while held
        conflict = "pub fn probe(mut cache: %s) {\n    let r = %s;\n    let it = cache.into_iter();\n    touch(r);\n    touch(it);\n}\n" % (CTYPE, expr)
        out.append({"name": "borrow/%s/into_iter-while-held" % name, "src": PRELUDE + conflict, "expect": "reject", "codes": ["E0505"], "group": "borrow"})
        # 3. the result escaping the cache's scope
        conflict = "pub fn probe() {\n    let r;\n    {\n        let mut cache: %s = LruCache::new(64);\n        r = %s;\n    }\n    touch(r);\n}\n" % (CTYPE, expr)
        twin = "pub fn probe() {\n    let mut cache: %s = LruCache::new(64);\n    let r;\n    {\n        r = %s;\n    }\n    touch(r);\n}\n" % (CTYPE, expr)
        out.append({"name": "borrow/%s/escapes-scope" % name, "src": PRELUDE + conflict, "expect": "reject", "codes": ["E0597"], "group": "borrow"})
        out.append({"name": "borrow/%s/stays-in-scope (twin)" % name, "src": PRELUDE + twin, "expect": "accept", "codes": [], "group": "borrow-twin"})
        # 3b. 'static escape: the result must not outlive the cache by being 'static
        conflict = "fn need_static<T: 'static>(_: T) {}\npub fn probe(mut cache: %s) {\n    let r = %s;\n    need_static(r);\n}\n" % (CTYPE, expr)
        out.append({"name": "borrow/%s/as-static" % name, "src": PRELUDE + conflict, "expect": "reject", "codes": ["E0597", "E0521", "E0716"], "group": "borrow"})
    # shared borrows may coexist (positive: &self APIs do not demand exclusivity)
    pos = "pub fn probe(cache: %s) {\n    let a = cache.peek(\"a\");\n    let b = cache.iter();\n    let c = cache.peek_lru();\n    touch((a, b, c));\n}\n" % CTYPE
    out.append({"name": "borrow/shared-coexist (twin)", "src": PRELUDE + pos, "expect": "accept", "codes": [], "group": "borrow-twin"})
    return out


def find_rlib():
    """Builds lru-mem (from /repo's working tree) and returns (rlib, deps dir)."""
    env = dict(os.environ)
    env["CARGO_NET_OFFLINE"] = "true"
    env["CARGO_TARGET_DIR"] = TARGET
    env.pop("RUSTFLAGS", None)
    r = subprocess.run(["cargo", "build", "--release", "--offline", "-p", "lru-mem", "--message-format=json"],
                       cwd=MC, env=env, stdout=subprocess.PIPE, stderr=subprocess.PIPE, text=True)
    if r.returncode != 0:
        sys.stderr.write(r.stderr[-4000:])
        return None, None
    rlib = None
    for line in r.stdout.splitlines():
        try:
            m = json.loads(line)
        except ValueError:
            continue
        if m.get("reason") == "compiler-artifact" and m.get("target", {}).get("name") == "lru_mem":
            for f in m.get("filenames", []):
                if f.endswith(".rlib"):
                    rlib = f
    if rlib is None:
        return None, None
    return rlib, os.path.join(TARGET, "release", "deps")


def compile_probe(args):
    idx, probe, rlib, deps = args
    d = os.path.join(WORK, "p%04d" % idx)
    os.makedirs(d, exist_ok=True)
    src = os.path.join(d, "probe.rs")
    with open(src, "w") as f:
        f.write(probe["src"])
    cmd = ["rustc", "--edition", "2021", "--crate-type", "lib", "--emit=metadata", "--error-format=json",
           "-L", "dependency=" + deps, "--extern", "lru_mem=" + rlib, "--out-dir", d, src]
    r = subprocess.run(cmd, stdout=subprocess.PIPE, stderr=subprocess.PIPE, text=True)
    codes = []
    msgs = []
    for line in r.stderr.splitlines():
        try:
            m = json.loads(line)
        except ValueError:
            continue
        if m.get("level") == "error":
            c = (m.get("code") or {}).get("code")
            if c:
                codes.append(c)
            msgs.append(m.get("message", ""))
    return idx, r.returncode, codes, msgs


def iterator_probes():
    """Negative direction only: the cache's contents must not become reachable from
    another thread through an iterator when the cache itself could not be shared
    (borrowing iterators hold &K / &V: sending or sharing one needs K, V: Sync;
    draining / owning iterators hold &mut LruCache / LruCache). Whether an
    iterator is Send / Sync at all is not demanded."""
    out = []
    use = "use lru_mem::{Drain, IntoIter, IntoKeys, IntoValues, Iter, Keys, Values};\n"
    for ty in ("Iter", "Keys", "Values"):
        for trait in ("Send", "Sync"):
            for witness in ("SendOnly", "Neither"):
                for pos in range(2):
                    params = ["Both", "Both"]
                    params[pos] = witness
                    body = use + "pub fn probe() { assert_%s::<%s<'static, %s>>(); }\n" % (trait.lower(), ty, ", ".join(params))
                    out.append({"name": "iterator/%s/%s/%s@%d" % (ty, trait, witness, pos), "src": PRELUDE + body, "expect": "reject", "codes": ["E0277"], "group": "iterator"})
    for ty, lt in (("Drain", "'static, "), ("IntoIter", ""), ("IntoKeys", ""), ("IntoValues", "")):
        for trait, witness in (("Send", "SyncOnly"), ("Sync", "SendOnly"), ("Send", "Neither"), ("Sync", "Neither")):
            for pos in range(3):
                params = ["Both", "Both", "Both"]
                params[pos] = witness
                body = use + "pub fn probe() { assert_%s::<%s<%s%s>>(); }\n" % (trait.lower(), ty, lt, ", ".join(params))
                out.append({"name": "iterator/%s/%s/%s@%d" % (ty, trait, witness, pos), "src": PRELUDE + body, "expect": "reject", "codes": ["E0277"], "group": "iterator"})
    return out


def main():
    args = sys.argv[1:]
    opt = {}
    i = 0
    while i < len(args):
        if args[i].startswith("--") and i + 1 < len(args):
            opt[args[i][2:]] = args[i + 1]
            i += 2
        else:
            i += 1
    tier = opt.get("tier", "quick")
    seed = int(opt.get("seed", "0"))
    t0 = time.time()
    rlib, deps = find_rlib()
    if rlib is None:
        sys.stderr.write("MACHINERY ERROR: could not build lru-mem for the probes\n")
        return 2
    probes = lattice_probes() + generic_probes() + borrow_probes() + iterator_probes()
    if "replay" in opt:
        want = json.load(open(opt["replay"])).get("probe")
        probes = [p for p in probes if p["name"] == want]
        if not probes:
            sys.stderr.write("MACHINERY ERROR: unknown probe in replay file\n")
            return 2
    os.makedirs(WORK, exist_ok=True)
    # sanity: the prelude alone must compile (otherwise every rejection is meaningless)
    _, rc, codes, msgs = compile_probe((9999, {"src": PRELUDE}, rlib, deps))
    if rc != 0:
        sys.stderr.write("MACHINERY ERROR: probe prelude does not compile: %s\n" % msgs)
        return 2
    with concurrent.futures.ThreadPoolExecutor(max_workers=16) as ex:
        results = list(ex.map(compile_probe, [(i, p, rlib, deps) for i, p in enumerate(probes)]))
    viol = []
    samples = []
    distinct_reject = 0
    groups = {}
    for (idx, rc, codes, msgs) in results:
        p = probes[idx]
        groups[p["group"]] = groups.get(p["group"], 0) + 1
        accepted = rc == 0
        if p["expect"] == "accept":
            if not accepted:
                if p["group"] == "borrow-twin":
                    # a twin that does not compile means the probe pair is broken, not the library...
                    # unless the library's signature changed; report as violation of the positive direction
                    viol.append((p, "expected to compile (conflict-free twin) but rustc rejected it: %s %s" % (codes, msgs[:1])))
                else:
                    viol.append((p, "expected to compile but rustc rejected it: %s %s" % (codes, msgs[:1])))
        else:
            distinct_reject += 1
            if accepted:
                viol.append((p, "expected to be rejected (%s) but rustc accepted it" % "/".join(p["codes"])))
            elif not any(c in p["codes"] for c in codes):
                viol.append((p, "rejected, but with %s instead of %s: %s" % (codes, p["codes"], msgs[:1])))
        if len(samples) < 6 and idx % 47 == 3:
            samples.append({"probe": p["name"], "expected": p["expect"], "expected_codes": p["codes"], "rustc_exit": rc, "rustc_codes": codes,
                            "program": p["src"][len(PRELUDE):]})
    wall = time.time() - t0
    rd = opt.get("replay-dir", os.path.join(VERIF, "replays"))
    os.makedirs(rd, exist_ok=True)
    for (p, why) in viol[:12]:
        h = hashlib.sha1(p["name"].encode()).hexdigest()[:16]
        path = os.path.join(rd, "C18-%s.json" % h)
        json.dump({"property": "C18", "probe": p["name"], "why": why, "program": p["src"], "engine": "probes"}, open(path, "w"), indent=1)
        print("VIOLATION property=C18 replay=%s" % path)
        print("  %s: %s" % (p["name"], why))
    print("C18: tier=%s programs=%d expected_rejections=%d groups=%s violations=%d wall=%.1fs" % (tier, len(probes), distinct_reject, groups, len(viol), wall))
    if "out" in opt and "replay" not in opt:
        ev = {
            "property_id": "C18",
            "tier": tier,
            "seed": seed,
            "level": "exploration",
            "coverage": {
                "evaluations": len(probes),
                "distinct_nontrivial": distinct_reject,
                "rule": "programs = {Send+Sync, Send-only, Sync-only, neither}^3 x {Send, Sync} (complete lattice) + generic bound probes + (7 iterator types x {Send, Sync} x a witness lacking the needed trait in each position: must be rejected) + (17 reference/iterator-returning API expressions) x (7 conflicting uses + 3 conflict-free twins); non-trivial = programs that must be REJECTED with a specific error code (each is a distinct program)",
                "samples": samples,
                "exhaustive": True,
                "groups": groups,
                "rustc": subprocess.run(["rustc", "--version"], stdout=subprocess.PIPE, text=True).stdout.strip(),
                "explanation": "There are no executions to explore for a compile-time property; the enumeration is over programs and the per-program decision is the compiler's.",
            },
            "assumptions": ["rustc's trait solver and borrow checker", "the rlib probed is the one cargo just built from /repo's working tree"],
            "wall_s": wall,
            "violations": len(viol),
        }
        os.makedirs(os.path.dirname(opt["out"]), exist_ok=True)
        json.dump(ev, open(opt["out"], "w"), indent=1)
    return 1 if viol else 0


if __name__ == "__main__":
    sys.exit(main())
