//! Instantiation variants: the main engine decides the cache properties on
//! `LruCache<TKey, TVal, TBuild>`. Code may legitimately specialise on the
//! type parameters (`mem::needs_drop`, `size_of`, `align_of`, the borrowed form
//! of the key, the hasher type), so the same differential check - every
//! operation sequence up to a depth, a Vec-in-recency-order reference, the
//! structure walker on the hook's dump - is repeated here for a family of other
//! instantiations: no drop glue on either side with a value whose size estimate
//! varies, String keys looked up through `str`, zero-sized key, zero-sized
//! value, over-aligned value, the default hasher, drop glue on one side only.
//! The alphabet also contains `Clone::clone_from` into differently configured
//! targets.

use crate::check::{p, Props, Violation};
use crate::state::{dump_fingerprint, walk};
use crate::types::*;
use lru_mem::{HeapSize, LruCache, MemSize};
use std::borrow::Borrow;
use std::cell::Cell;
use std::hash::{BuildHasher, Hash, Hasher};
use std::mem::MaybeUninit;

// ---------------------------------------------------------------------------
// counting hasher
// ---------------------------------------------------------------------------

thread_local! {
    static HASHES: Cell<u64> = const { Cell::new(0) };
}
fn hashes() -> u64 {
    HASHES.with(|c| c.get())
}

#[derive(Clone)]
pub struct CBuild(pub TBuild);
pub struct CHasher(THasher);
impl BuildHasher for CBuild {
    type Hasher = CHasher;
    fn build_hasher(&self) -> CHasher {
        CHasher(self.0.build_hasher())
    }
}
impl Hasher for CHasher {
    fn write(&mut self, b: &[u8]) {
        self.0.write(b)
    }
    fn write_u32(&mut self, v: u32) {
        self.0.write_u32(v)
    }
    fn finish(&self) -> u64 {
        HASHES.with(|c| c.set(c.get() + 1));
        callback(Cb::HashK);
        self.0.finish()
    }
}

// ---------------------------------------------------------------------------
// instantiations
// ---------------------------------------------------------------------------

pub trait Inst {
    type K: Hash + Eq + MemSize + Clone + Borrow<Self::Q>;
    type Q: ?Sized + Hash + Eq;
    type V: MemSize + Clone;
    type S: BuildHasher + Clone;
    const NAME: &'static str;
    const NKEYS: u32 = 3;
    /// number of selectable value sizes (selector 0 is the smallest)
    const VSEL: usize = 2;
    const COUNTS_HASHES: bool = true;
    /// instances are registered with the identity registry
    const TRACKED: bool = false;
    /// cloning a value (or key) changes its size estimate; a clone is accounted
    /// by the sizes recorded in the source
    const CLONE_CHANGES_SIZE: bool = false;
    /// Clone::clone of a value adds 1 to its tag (tags are issued in steps of 16)
    const CLONE_BUMPS: bool = false;
    /// key(id) is defined for every id (ladder family)
    const MANY_KEYS: bool = false;
    fn mk(limit: usize, cap: Option<usize>, hk: HK) -> LruCache<Self::K, Self::V, Self::S>;
    fn key(id: u32) -> Self::K;
    fn with_q<R>(id: u32, f: impl FnOnce(&Self::Q) -> R) -> R;
    fn kid(k: &Self::K) -> u32;
    fn val(tag: u32, sel: usize) -> Self::V;
    fn vtag(v: &Self::V) -> u32;
    fn resize(v: &mut Self::V, sel: usize);
}

/// Mirror of the crate's private Entry<K, V> (same field types in the same
/// order), for an independent expectation of the fixed part of an entry size.
#[allow(dead_code)]
struct Mirror<K, V> {
    size: usize,
    prev: *mut u8,
    next: *mut u8,
    key: MaybeUninit<K>,
    value: MaybeUninit<V>,
}

fn esize<T: Inst>(k: &T::K, v: &T::V) -> usize {
    quiet(|| std::mem::size_of::<Mirror<T::K, T::V>>() + k.heap_size() + v.heap_size())
}

/// plain value (no drop glue) whose size estimate is not constant
pub struct View {
    tag: u32,
    len: usize,
}
/// not a bitwise copy although the type has no drop glue: the low four bits of
/// the tag count how often the instance was cloned
impl Clone for View {
    fn clone(&self) -> View {
        callback(Cb::CloneV);
        View { tag: self.tag + 1, len: self.len }
    }
}
impl HeapSize for View {
    fn heap_size(&self) -> usize {
        callback(Cb::HeapV);
        self.len
    }
}
/// the third length is not part of the general alphabets (VSEL = 2): it is what a mutate in the
/// "filled" jobs grows a value to, so that one growing mutate evicts most of a 70-entry cache
const VIEW_LENS: [usize; 3] = [0, 40, 3600];

macro_rules! cmk {
    () => {
        fn mk(limit: usize, cap: Option<usize>, hk: HK) -> LruCache<Self::K, Self::V, Self::S> {
            match cap {
                None => LruCache::with_hasher(limit, CBuild(TBuild { kind: hk })),
                Some(c) => LruCache::with_capacity_and_hasher(limit, c, CBuild(TBuild { kind: hk })),
            }
        }
    };
}

pub struct U64View;
impl Inst for U64View {
    const MANY_KEYS: bool = true;
    const CLONE_BUMPS: bool = true;
    type K = u64;
    type Q = u64;
    type V = View;
    type S = CBuild;
    const NAME: &'static str = "LruCache<u64, Copy value with a varying size estimate>";
    cmk!();
    fn key(id: u32) -> u64 {
        id as u64
    }
    fn with_q<R>(id: u32, f: impl FnOnce(&u64) -> R) -> R {
        f(&(id as u64))
    }
    fn kid(k: &u64) -> u32 {
        *k as u32
    }
    fn val(tag: u32, sel: usize) -> View {
        View { tag, len: VIEW_LENS[sel] }
    }
    fn vtag(v: &View) -> u32 {
        v.tag
    }
    fn resize(v: &mut View, sel: usize) {
        v.len = VIEW_LENS[sel];
    }
}

/// A hash builder whose clone hashes differently (a per-instance seed that is re-derived when
/// the builder is cloned): lawful for BuildHasher, and it means that nothing computed with the
/// source's builder may be reused for the clone's table.
pub struct RBuild {
    kind: HK,
    seed: u64,
}
impl Clone for RBuild {
    fn clone(&self) -> RBuild {
        RBuild { kind: self.kind, seed: self.seed.wrapping_mul(0x9E37_79B9_7F4A_7C15).wrapping_add(1) }
    }
}
pub struct RHasher(THasher, u64);
impl BuildHasher for RBuild {
    type Hasher = RHasher;
    fn build_hasher(&self) -> RHasher {
        RHasher(TBuild { kind: self.kind }.build_hasher(), self.seed)
    }
}
impl Hasher for RHasher {
    fn write(&mut self, b: &[u8]) {
        self.0.write(b)
    }
    fn write_u32(&mut self, v: u32) {
        self.0.write_u32(v)
    }
    fn finish(&self) -> u64 {
        HASHES.with(|c| c.set(c.get() + 1));
        callback(Cb::HashK);
        (self.0.finish() ^ self.1).wrapping_mul(0xD6E8_FEB8_6659_FD93)
    }
}

pub struct ReseedView;
impl Inst for ReseedView {
    const MANY_KEYS: bool = true;
    const CLONE_BUMPS: bool = true;
    type K = u64;
    type Q = u64;
    type V = View;
    type S = RBuild;
    const NAME: &'static str = "LruCache<u64, Copy value> with a hash builder whose clone hashes differently";
    fn mk(limit: usize, cap: Option<usize>, hk: HK) -> LruCache<u64, View, RBuild> {
        match cap {
            None => LruCache::with_hasher(limit, RBuild { kind: hk, seed: 1 }),
            Some(c) => LruCache::with_capacity_and_hasher(limit, c, RBuild { kind: hk, seed: 1 }),
        }
    }
    fn key(id: u32) -> u64 {
        id as u64
    }
    fn with_q<R>(id: u32, f: impl FnOnce(&u64) -> R) -> R {
        f(&(id as u64))
    }
    fn kid(k: &u64) -> u32 {
        *k as u32
    }
    fn val(tag: u32, sel: usize) -> View {
        View { tag, len: VIEW_LENS[sel] }
    }
    fn vtag(v: &View) -> u32 {
        v.tag
    }
    fn resize(v: &mut View, sel: usize) {
        v.len = VIEW_LENS[sel];
    }
}

pub struct DefaultHasherView;
impl Inst for DefaultHasherView {
    const MANY_KEYS: bool = true;
    const CLONE_BUMPS: bool = true;
    type K = u64;
    type Q = u64;
    type V = View;
    type S = hashbrown::hash_map::DefaultHashBuilder;
    const NAME: &'static str = "LruCache<u64, Copy value> with the default hasher (new / with_capacity)";
    const COUNTS_HASHES: bool = false;
    fn mk(limit: usize, cap: Option<usize>, _hk: HK) -> LruCache<u64, View> {
        match cap {
            None => LruCache::new(limit),
            Some(c) => LruCache::with_capacity(limit, c),
        }
    }
    fn key(id: u32) -> u64 {
        id as u64
    }
    fn with_q<R>(id: u32, f: impl FnOnce(&u64) -> R) -> R {
        f(&(id as u64))
    }
    fn kid(k: &u64) -> u32 {
        *k as u32
    }
    fn val(tag: u32, sel: usize) -> View {
        View { tag, len: VIEW_LENS[sel] }
    }
    fn vtag(v: &View) -> u32 {
        v.tag
    }
    fn resize(v: &mut View, sel: usize) {
        v.len = VIEW_LENS[sel];
    }
}

// the second key is the empty string: its borrowed form is a zero-sized value
const NAMES: [&str; 4] = ["a", "", "a-long-key-that-owns-more-heap", "dddd"];

pub struct StringVec;
impl Inst for StringVec {
    type K = String;
    type Q = str;
    type V = Vec<u8>;
    type S = CBuild;
    const NAME: &'static str = "LruCache<String, Vec<u8>> looked up through &str";
    const CLONE_CHANGES_SIZE: bool = true;
    cmk!();
    fn key(id: u32) -> String {
        NAMES[id as usize].to_string()
    }
    fn with_q<R>(id: u32, f: impl FnOnce(&str) -> R) -> R {
        f(NAMES[id as usize])
    }
    fn kid(k: &String) -> u32 {
        NAMES.iter().position(|n| n == k).unwrap_or(99) as u32
    }
    fn val(tag: u32, sel: usize) -> Vec<u8> {
        let mut v = Vec::with_capacity([4, 64][sel]);
        v.extend_from_slice(&tag.to_le_bytes());
        v
    }
    fn vtag(v: &Vec<u8>) -> u32 {
        u32::from_le_bytes([v[0], v[1], v[2], v[3]])
    }
    fn resize(v: &mut Vec<u8>, sel: usize) {
        let mut n = Vec::with_capacity([4, 64][sel]);
        n.extend_from_slice(&v[..4]);
        *v = n;
    }
}

/// Keys whose borrowed form is unsized and whose Eq / Hash are coarser than byte equality:
/// a path is equal to any other spelling of the same components ("d1/k" == "d1//k/" ==
/// "d1/./k"). Stored under one spelling, looked up through another of a different length.
const PATHS: [(&str, &str); 3] = [("d0/k", "d0//k/"), ("d1/key-with-a-longer-name", "d1/./key-with-a-longer-name"), ("k2", "k2/")];

pub struct PathKeys;
impl Inst for PathKeys {
    type K = std::path::PathBuf;
    type Q = std::path::Path;
    type V = View;
    type S = CBuild;
    const NAME: &'static str = "LruCache<PathBuf, Copy value> looked up through another spelling of the same &Path";
    const CLONE_BUMPS: bool = true;
    cmk!();
    fn key(id: u32) -> std::path::PathBuf {
        std::path::PathBuf::from(PATHS[id as usize].0)
    }
    fn with_q<R>(id: u32, f: impl FnOnce(&std::path::Path) -> R) -> R {
        f(std::path::Path::new(PATHS[id as usize].1))
    }
    fn kid(k: &std::path::PathBuf) -> u32 {
        PATHS.iter().position(|n| std::path::Path::new(n.0) == k.as_path()).unwrap_or(99) as u32
    }
    fn val(tag: u32, sel: usize) -> View {
        View { tag, len: VIEW_LENS[sel] }
    }
    fn vtag(v: &View) -> u32 {
        v.tag
    }
    fn resize(v: &mut View, sel: usize) {
        v.len = VIEW_LENS[sel];
    }
}

pub struct UnitKey;
impl Inst for UnitKey {
    const CLONE_BUMPS: bool = true;
    type K = ();
    type Q = ();
    type V = View;
    type S = CBuild;
    const NAME: &'static str = "LruCache<(), Copy value> (zero-sized key)";
    const NKEYS: u32 = 1;
    cmk!();
    fn key(_: u32) {}
    fn with_q<R>(_: u32, f: impl FnOnce(&()) -> R) -> R {
        f(&())
    }
    fn kid(_: &()) -> u32 {
        0
    }
    fn val(tag: u32, sel: usize) -> View {
        View { tag, len: VIEW_LENS[sel] }
    }
    fn vtag(v: &View) -> u32 {
        v.tag
    }
    fn resize(v: &mut View, sel: usize) {
        v.len = VIEW_LENS[sel];
    }
}

pub struct UnitVal;
impl Inst for UnitVal {
    const MANY_KEYS: bool = true;
    type K = u32;
    type Q = u32;
    type V = ();
    type S = CBuild;
    const NAME: &'static str = "LruCache<u32, ()> (zero-sized value)";
    const VSEL: usize = 1;
    cmk!();
    fn key(id: u32) -> u32 {
        id
    }
    fn with_q<R>(id: u32, f: impl FnOnce(&u32) -> R) -> R {
        f(&id)
    }
    fn kid(k: &u32) -> u32 {
        *k
    }
    fn val(_: u32, _: usize) {}
    fn vtag(_: &()) -> u32 {
        0
    }
    fn resize(_: &mut (), _: usize) {}
}

#[derive(Clone, Copy)]
#[repr(align(32))]
pub struct A32(u32, usize);
impl HeapSize for A32 {
    fn heap_size(&self) -> usize {
        self.1
    }
}

pub struct Aligned;
impl Inst for Aligned {
    type K = u16;
    type Q = u16;
    type V = A32;
    type S = CBuild;
    const NAME: &'static str = "LruCache<u16, value aligned to 32 bytes>";
    cmk!();
    fn key(id: u32) -> u16 {
        id as u16
    }
    fn with_q<R>(id: u32, f: impl FnOnce(&u16) -> R) -> R {
        f(&(id as u16))
    }
    fn kid(k: &u16) -> u32 {
        *k as u32
    }
    fn val(tag: u32, sel: usize) -> A32 {
        A32(tag, VIEW_LENS[sel])
    }
    fn vtag(v: &A32) -> u32 {
        v.0
    }
    fn resize(v: &mut A32, sel: usize) {
        v.1 = VIEW_LENS[sel];
    }
}

/// drop glue on the key only
pub struct TrackedKeyView;
impl Inst for TrackedKeyView {
    const MANY_KEYS: bool = true;
    const CLONE_BUMPS: bool = true;
    type K = TKey;
    type Q = QKey;
    type V = View;
    type S = CBuild;
    const NAME: &'static str = "LruCache<K with drop glue, Copy value> looked up through the borrowed form";
    const TRACKED: bool = true;
    cmk!();
    fn key(id: u32) -> TKey {
        TKey::new(id, if id == 2 { 16 } else { 0 })
    }
    fn with_q<R>(id: u32, f: impl FnOnce(&QKey) -> R) -> R {
        f(&QKey(KeyId(id)))
    }
    fn kid(k: &TKey) -> u32 {
        k.id.0
    }
    fn val(tag: u32, sel: usize) -> View {
        View { tag, len: VIEW_LENS[sel] }
    }
    fn vtag(v: &View) -> u32 {
        v.tag
    }
    fn resize(v: &mut View, sel: usize) {
        v.len = VIEW_LENS[sel];
    }
}

/// value with drop glue (through the registered TVal inside) and a tag that survives cloning
#[derive(Clone)]
pub struct TagVal {
    tag: u32,
    inner: TVal,
}
impl HeapSize for TagVal {
    fn heap_size(&self) -> usize {
        self.inner.heap
    }
}

/// drop glue on the value only
pub struct PlainKeyTracked;
impl Inst for PlainKeyTracked {
    type K = u8;
    type Q = u8;
    type V = TagVal;
    type S = CBuild;
    const NAME: &'static str = "LruCache<u8, V with drop glue>";
    const TRACKED: bool = true;
    cmk!();
    fn key(id: u32) -> u8 {
        id as u8
    }
    fn with_q<R>(id: u32, f: impl FnOnce(&u8) -> R) -> R {
        f(&(id as u8))
    }
    fn kid(k: &u8) -> u32 {
        *k as u32
    }
    fn val(tag: u32, sel: usize) -> TagVal {
        TagVal { tag, inner: TVal::new(VIEW_LENS[sel]) }
    }
    fn vtag(v: &TagVal) -> u32 {
        check_live(v.inner.serial, false, "value reached through the cache");
        v.tag
    }
    fn resize(v: &mut TagVal, sel: usize) {
        v.inner.heap = VIEW_LENS[sel];
    }
}

/// a large inline value (200 bytes) with drop glue: code that treats entries differently by
/// their inline size (in-place drops, memcpy thresholds, by-reference hand-over) sees this one
#[derive(Clone)]
pub struct FatVal {
    tag: u32,
    inner: TVal,
    pad: [u64; 22],
}
impl HeapSize for FatVal {
    fn heap_size(&self) -> usize {
        self.inner.heap
    }
}

/// drop glue on the value, entry of more than 256 bytes inline
pub struct FatTracked;
impl Inst for FatTracked {
    type K = u8;
    type Q = u8;
    type V = FatVal;
    type S = CBuild;
    const NAME: &'static str = "LruCache<u8, 200-byte inline V with drop glue>";
    const TRACKED: bool = true;
    cmk!();
    fn key(id: u32) -> u8 {
        id as u8
    }
    fn with_q<R>(id: u32, f: impl FnOnce(&u8) -> R) -> R {
        f(&(id as u8))
    }
    fn kid(k: &u8) -> u32 {
        *k as u32
    }
    fn val(tag: u32, sel: usize) -> FatVal {
        FatVal { tag, inner: TVal::new(VIEW_LENS[sel]), pad: [tag as u64 ^ 0x5555_5555_5555_5555; 22] }
    }
    fn vtag(v: &FatVal) -> u32 {
        check_live(v.inner.serial, false, "value reached through the cache");
        if v.pad.iter().any(|w| *w != v.tag as u64 ^ 0x5555_5555_5555_5555) {
            // the inline payload must travel with the value
            return u32::MAX - 1;
        }
        v.tag
    }
    fn resize(v: &mut FatVal, sel: usize) {
        v.inner.heap = VIEW_LENS[sel];
    }
}

// ---------------------------------------------------------------------------
// alphabet
// ---------------------------------------------------------------------------

#[derive(Clone, Copy, Debug, PartialEq, Eq)]
pub enum IOp {
    Insert(u32, usize),
    TryInsert(u32, usize),
    Get(u32),
    GetEntry(u32),
    Peek(u32),
    PeekEntry(u32),
    Contains(u32),
    Touch(u32),
    Remove(u32),
    RemoveEntry(u32),
    Mutate(u32, usize),
    GetLru,
    PeekLru,
    PeekMru,
    RemoveLru,
    RemoveMru,
    /// 0: limit 0, 1: one small entry, 2: one large entry, 3: two large entries, 4: usize::MAX
    SetMax(u8),
    /// 0..=2: keep ids with bit set in [0b101, 0b010, 0]; 3: keep only the first entry visited
    Retain(u8),
    Reserve,
    TryReserve,
    /// a reservation that must fail and leave the cache as it was: 0 try_reserve(usize::MAX / 2)
    /// (refused when the new table is sized), 1 try_reserve(usize::MAX) (len + additional
    /// overflows), 2 reserve(usize::MAX / 2) (documented panic, caught)
    ReserveFail(u8),
    ShrinkToFit,
    ShrinkTo0,
    Clear,
    CloneSwap,
    /// clone_from into: 0 a fresh cache with limit 0; 1 a cache with limit MAX,
    /// requested capacity 16, holding two other entries; 2 a clone of the source
    /// from which the MRU entry was removed; 3 a fresh cache with requested
    /// capacity len / 2
    CloneFrom(u8),
    Drain(u8),
    /// drain(), take n items from the front, mem::forget the iterator
    DrainForget(u8),
    /// clone, continue with the clone, and meanwhile use and drop the source: 0 clear;
    /// 1 remove_lru + insert + set_max_size(0); 2 drain, take one, forget; 3 mutate the MRU value
    /// in place (resize), retain nothing
    CloneDisturb(u8),
    /// every other &self accessor: len, is_empty, capacity, current_size, max_size, hasher,
    /// iter / keys / values in both directions, clone (the clone is dropped)
    ReadAll,
    /// consume the cache through into_iter (0) / into_keys (1) / into_values (2)
    /// under pattern 0: front only, 1: back only, 2: alternating from the back,
    /// stopping after len/2 + 1 items; two calls past exhaustion when everything
    /// was taken; the exploration continues on a fresh cache with the same limit
    Owning(u8, u8),
}

fn alphabet<T: Inst>() -> Vec<IOp> {
    let mut a = vec![];
    for k in 0..T::NKEYS {
        for s in 0..T::VSEL {
            a.push(IOp::Insert(k, s));
        }
    }
    for k in 0..T::NKEYS {
        a.push(IOp::TryInsert(k, 0));
        a.push(IOp::Get(k));
        a.push(IOp::Touch(k));
        a.push(IOp::Remove(k));
        for s in 0..T::VSEL {
            a.push(IOp::Mutate(k, s));
        }
    }
    a.push(IOp::TryInsert(0, T::VSEL - 1));
    let k1 = 1 % T::NKEYS;
    a.extend([IOp::GetEntry(0), IOp::Peek(k1), IOp::PeekEntry(0), IOp::Contains(k1), IOp::RemoveEntry(k1)]);
    a.extend([IOp::GetLru, IOp::PeekLru, IOp::PeekMru, IOp::RemoveLru, IOp::RemoveMru]);
    for i in 0..5 {
        a.push(IOp::SetMax(i));
    }
    for i in 0..4 {
        a.push(IOp::Retain(i));
    }
    a.extend([IOp::Reserve, IOp::TryReserve, IOp::ReserveFail(0), IOp::ReserveFail(2), IOp::ShrinkToFit, IOp::ShrinkTo0, IOp::Clear, IOp::CloneSwap]);
    for i in 0..4 {
        a.push(IOp::CloneFrom(i));
    }
    for pat in 0..NPATS {
        a.push(IOp::Drain(pat));
    }
    a.push(IOp::DrainForget(0));
    a.push(IOp::DrainForget(1));
    a.push(IOp::ReadAll);
    for i in 0..4 {
        a.push(IOp::CloneDisturb(i));
    }
    for kind in 0..3 {
        for pat in 0..NPATS {
            a.push(IOp::Owning(kind, pat));
        }
    }
    a
}

// ---------------------------------------------------------------------------
// iterator driving patterns (the same function drives the real iterator and a
// VecDeque of the expected items, whose std iterator is the reference)
// ---------------------------------------------------------------------------

const NONE: (u32, u32) = (u32::MAX, u32::MAX);
const COUNT: u32 = u32::MAX - 1;
pub const NPATS: u8 = 17;

/// The iterator is taken by value so that the provided methods a type may
/// override (last, count, nth, rev) are really the type's own.
/// 0: front only (two calls past the end); 1: back only (ditto); 2: alternating
/// from the back, stopping after n/2 + 1 items (the rest is dropped with the
/// iterator); 3: next, last; 4: exhausted from the front, then last; 5: driven
/// from both ends until they meet, then last; 6: next_back, count; 7: nth(1),
/// next_back, nth(0), count; 8: next, rev; 9: exhausted from the back, then last.
fn drive<X, I: DoubleEndedIterator<Item = X>>(mut it: I, pat: u8, n: usize, f: impl Fn(X) -> (u32, u32)) -> Vec<(u32, u32)> {
    let f = &f;
    let g = |x: Option<X>| x.map(f).unwrap_or(NONE);
    match pat {
        0 => (0..n + 2).map(|_| g(it.next())).collect(),
        1 => (0..n + 2).map(|_| g(it.next_back())).collect(),
        2 => (0..n / 2 + 1).map(|i| if i % 2 == 1 { g(it.next()) } else { g(it.next_back()) }).collect(),
        3 => vec![g(it.next()), g(it.last())],
        4 => {
            let mut v: Vec<(u32, u32)> = (0..n + 1).map(|_| g(it.next())).collect();
            v.push(g(it.last()));
            v
        }
        5 => {
            let mut v = vec![];
            for i in 0..n + 1 {
                let x = if i % 2 == 0 { it.next() } else { it.next_back() };
                let done = x.is_none();
                v.push(g(x));
                if done {
                    break;
                }
            }
            v.push(g(it.last()));
            v
        }
        6 => vec![g(it.next_back()), (COUNT, it.count() as u32)],
        7 => vec![g(it.nth(1)), g(it.next_back()), g(it.nth(0)), (COUNT, it.count() as u32)],
        8 => {
            let mut v = vec![g(it.next())];
            v.extend(it.rev().map(&f));
            v
        }
        9 => {
            let mut v: Vec<(u32, u32)> = (0..n + 1).map(|_| g(it.next_back())).collect();
            v.push(g(it.last()));
            v
        }
        // the consumer panics while the iterator is alive: the iterator is dropped by the
        // unwinding (the panic is caught here); what it had not yielded must still be dropped
        16 => {
            let mut v = vec![];
            let _ = std::panic::catch_unwind(std::panic::AssertUnwindSafe(|| {
                let mut it = it;
                v.push(g(it.next()));
                v.push(g(it.next_back()));
                std::panic::panic_any("the consumer of the iterator panics");
            }));
            v
        }
        // 10..=15: the internal-iteration methods (fold, rfold, try_fold, try_rfold through
        // for_each / rev / find / rfind); a runaway iterator is cut off by a panic
        10 => {
            let mut v = vec![g(it.next())];
            it.rfold((), |(), x| {
                v.push(f(x));
                assert!(v.len() <= 4 * n + 8, "iterator yields without end");
            });
            v
        }
        11 => {
            let mut v: Vec<(u32, u32)> = (0..n + 1).map(|_| g(it.next())).collect();
            it.rev().for_each(|x| {
                v.push(f(x));
                assert!(v.len() <= 4 * n + 8, "iterator yields without end");
            });
            v
        }
        12 => {
            let mut v: Vec<(u32, u32)> = (0..n + 1).map(|_| g(it.next_back())).collect();
            it.for_each(|x| {
                v.push(f(x));
                assert!(v.len() <= 4 * n + 8, "iterator yields without end");
            });
            v
        }
        13 => {
            let mut v = vec![g(it.next_back())];
            let mut seen = 0usize;
            let found = it.find(|_| {
                seen += 1;
                assert!(seen <= 4 * n + 8, "iterator yields without end");
                false
            });
            v.push((COUNT, seen as u32));
            v.push(g(found));
            v.push(g(it.next()));
            v.push(g(it.next_back()));
            v
        }
        14 => {
            let mut v = vec![g(it.next())];
            let mut seen = 0usize;
            let found = it.rfind(|_| {
                seen += 1;
                assert!(seen <= 4 * n + 8, "iterator yields without end");
                seen == 2
            });
            v.push((COUNT, seen as u32));
            v.push(g(found));
            v.push(g(it.next_back()));
            v.push(g(it.next()));
            v
        }
        _ => {
            // met in the middle, then internal iteration from both sides
            let mut v = vec![];
            for i in 0..n + 1 {
                let x = if i % 2 == 0 { it.next() } else { it.next_back() };
                let done = x.is_none();
                v.push(g(x));
                if done {
                    break;
                }
            }
            let mut k = 0usize;
            let c = it.fold(0u32, |a, _| {
                k += 1;
                assert!(k <= 4 * n + 8, "iterator yields without end");
                a + 1
            });
            v.push((COUNT, c));
            v
        }
    }
}

// ---------------------------------------------------------------------------
// reference
// ---------------------------------------------------------------------------

#[derive(Clone, Debug, PartialEq, Eq)]
struct RE {
    id: u32,
    tag: u32,
    /// accounted size
    size: usize,
    /// size estimate of the instances held now (differs from `size` only in a
    /// clone whose keys / values have a different estimate than the originals)
    actual: usize,
}

#[derive(Clone, Debug, PartialEq, Eq)]
enum R {
    Unit,
    B(bool),
    V(Option<u32>),
    E(Option<(u32, u32)>),
    InsOk(Option<u32>),
    InsTooLarge { id: u32, tag: u32, size: usize, max: usize },
    TryOk,
    TryOccupied { id: u32, tag: u32 },
    TryWouldEject { id: u32, tag: u32, size: usize, free: usize },
    TryTooLarge { id: u32, tag: u32, size: usize, max: usize },
    MutOk(Option<u32>),
    MutTooLarge { id: u32, tag: u32, old: usize, new: usize, max: usize },
    Drained(Vec<(u32, u32)>),
    ReserveOk(bool),
}

struct Model {
    l: Vec<RE>,
    limit: usize,
}

impl Model {
    fn cur(&self) -> usize {
        self.l.iter().map(|x| x.size).sum()
    }
    fn evict(&mut self, room: usize) -> usize {
        let mut t = self.cur();
        let mut n = 0;
        while t > room && n < self.l.len() {
            t -= self.l[n].size;
            n += 1;
        }
        self.l.drain(..n);
        n
    }
    fn take(&mut self, id: u32) -> Option<RE> {
        self.l.iter().position(|x| x.id == id).map(|i| self.l.remove(i))
    }
}

struct Run<T: Inst> {
    c: LruCache<T::K, T::V, T::S>,
    m: Model,
    next_tag: u32,
    hk: HK,
    sm: [usize; 5],
    /// entries that left during the last step (for the hash bound)
    departed: usize,
    pred_seen: Vec<u32>,
    pred_expect: Vec<u32>,
    mut_calls: u32,
    mut_expect: u32,
    hash_exclude: u64,
    cloned: bool,
    /// an iterator was forgotten: instances may stay alive
    leaky: bool,
    rebuild_len: usize,
    is_rebuild_op: bool,
    zero_hash_op: bool,
    /// read-only operation: the raw layout must not change
    read_only: bool,
    source_changed: bool,
    /// the target of a clone_from that is in progress: if user code panics in the
    /// middle of it the half-built target is still here (it survives the unwind,
    /// as it does in a program that catches the panic) and is judged by the
    /// post-fault oracle
    pending: Option<LruCache<T::K, T::V, T::S>>,
}

impl<T: Inst> Run<T> {
    fn new(limit: usize, cap: Option<usize>, hk: HK, sm: [usize; 5]) -> Run<T> {
        Run {
            c: T::mk(limit, cap, hk),
            m: Model { l: vec![], limit },
            next_tag: 1,
            hk,
            sm,
            departed: 0,
            pred_seen: vec![],
            pred_expect: vec![],
            mut_calls: 0,
            mut_expect: 0,
            hash_exclude: 0,
            cloned: false,
            leaky: false,
            rebuild_len: 0,
            is_rebuild_op: false,
            zero_hash_op: false,
            read_only: false,
            source_changed: false,
            pending: None,
        }
    }

    fn fresh(&mut self, sel: usize) -> (T::V, u32) {
        let t = self.next_tag * 16;
        self.next_tag += 1;
        let v = T::val(t, sel);
        let tag = T::vtag(&v);
        (v, tag)
    }

    fn preload(&mut self, n: usize) {
        for k in 0..n as u32 {
            let key = T::key(k);
            let (val, tag) = self.fresh((k as usize % 2).min(T::VSEL - 1));
            let size = esize::<T>(&key, &val);
            let _ = self.c.insert(key, val);
            self.m.l.push(RE { id: k, tag, size, actual: size });
        }
    }

    /// A long periodic schedule: `pat` repeated until `steps` operations were executed, every
    /// return value compared with the reference, the accounted total every 4096 steps.
    fn churn(&mut self, pat: &[IOp], steps: usize) -> Option<String> {
        for i in 0..steps {
            let op = pat[i % pat.len()];
            let (a, e) = self.step(op);
            if a != e {
                return Some(format!("step {i} of the periodic schedule {pat:?}: {op:?} returned {a:?}, a sequential map returns {e:?}"));
            }
            if i % 4096 == 4095 && self.c.current_size() != self.m.cur() {
                return Some(format!("after {} steps of the periodic schedule {pat:?}: current_size() = {}, the sizes of the held entries add up to {}", i + 1, self.c.current_size(), self.m.cur()));
            }
        }
        None
    }

    /// after cloning: the clone's instances may have other size estimates than
    /// the originals (the accounted sizes are copied)
    fn refresh_actual(&mut self) {
        if T::CLONE_CHANGES_SIZE && self.c.len() == self.m.l.len() && walk(&self.c.verif_dump()).is_ok() {
            for (x, (k, v)) in self.m.l.iter_mut().zip(self.c.iter()) {
                x.actual = esize::<T>(k, v);
            }
        }
    }

    /// applies `op` to the cache and the model; returns (actual, expected)
    fn step(&mut self, op: IOp) -> (R, R) {
        self.departed = 0;
        self.pred_seen.clear();
        self.pred_expect.clear();
        self.mut_calls = 0;
        self.mut_expect = 0;
        self.hash_exclude = 0;
        self.is_rebuild_op = false;
        self.zero_hash_op = false;
        self.read_only = false;
        self.source_changed = false;
        self.rebuild_len = self.m.l.len();
        let limit = self.m.limit;
        let cur = self.m.cur();
        match op {
            IOp::Insert(k, s) => {
                let key = T::key(k);
                let (val, tag) = self.fresh(s);
                let size = esize::<T>(&key, &val);
                let exp = if size > limit {
                    R::InsTooLarge { id: k, tag, size, max: limit }
                } else {
                    let old = self.m.take(k);
                    self.departed = old.is_some() as usize;
                    self.departed += self.m.evict(limit - size);
                    self.m.l.push(RE { id: k, tag, size, actual: size });
                    R::InsOk(old.map(|o| o.tag))
                };
                let act = match self.c.insert(key, val) {
                    Ok(o) => R::InsOk(o.map(|v| T::vtag(&v))),
                    Err(lru_mem::InsertError::EntryTooLarge { key, value, entry_size, max_size }) => {
                        R::InsTooLarge { id: T::kid(&key), tag: T::vtag(&value), size: entry_size, max: max_size }
                    }
                };
                (act, exp)
            }
            IOp::TryInsert(k, s) => {
                let key = T::key(k);
                let (val, tag) = self.fresh(s);
                let size = esize::<T>(&key, &val);
                let present = self.m.l.iter().any(|x| x.id == k);
                let free = limit - cur.min(limit);
                let exp = if size > limit {
                    R::TryTooLarge { id: k, tag, size, max: limit }
                } else if size > free {
                    R::TryWouldEject { id: k, tag, size, free }
                } else if present {
                    R::TryOccupied { id: k, tag }
                } else {
                    self.m.l.push(RE { id: k, tag, size, actual: size });
                    R::TryOk
                };
                use lru_mem::TryInsertError as TE;
                let act = match self.c.try_insert(key, val) {
                    Ok(()) => R::TryOk,
                    Err(TE::OccupiedEntry { key, value }) => R::TryOccupied { id: T::kid(&key), tag: T::vtag(&value) },
                    Err(TE::WouldEjectLru { key, value, entry_size, free_memory }) => {
                        R::TryWouldEject { id: T::kid(&key), tag: T::vtag(&value), size: entry_size, free: free_memory }
                    }
                    Err(TE::EntryTooLarge { key, value, entry_size, max_size }) => {
                        R::TryTooLarge { id: T::kid(&key), tag: T::vtag(&value), size: entry_size, max: max_size }
                    }
                };
                (act, exp)
            }
            IOp::Get(k) | IOp::GetEntry(k) | IOp::Touch(k) => {
                let x = self.m.take(k);
                let exp = match op {
                    IOp::Get(_) => R::V(x.as_ref().map(|x| x.tag)),
                    IOp::GetEntry(_) => R::E(x.as_ref().map(|x| (x.id, x.tag))),
                    _ => R::Unit,
                };
                self.m.l.extend(x);
                let c = &mut self.c;
                let act = match op {
                    IOp::Get(_) => R::V(T::with_q(k, |q| c.get(q).map(|v| T::vtag(v)))),
                    IOp::GetEntry(_) => R::E(T::with_q(k, |q| c.get_entry(q).map(|(k, v)| (T::kid(k), T::vtag(v))))),
                    _ => {
                        T::with_q(k, |q| c.touch(q));
                        R::Unit
                    }
                };
                (act, exp)
            }
            IOp::Peek(k) => {
                self.read_only = true;
                let exp = R::V(self.m.l.iter().find(|x| x.id == k).map(|x| x.tag));
                let c = &self.c;
                (R::V(T::with_q(k, |q| c.peek(q).map(|v| T::vtag(v)))), exp)
            }
            IOp::PeekEntry(k) => {
                self.read_only = true;
                let exp = R::E(self.m.l.iter().find(|x| x.id == k).map(|x| (x.id, x.tag)));
                let c = &self.c;
                (R::E(T::with_q(k, |q| c.peek_entry(q).map(|(k, v)| (T::kid(k), T::vtag(v))))), exp)
            }
            IOp::Contains(k) => {
                self.read_only = true;
                let exp = R::B(self.m.l.iter().any(|x| x.id == k));
                let c = &self.c;
                (R::B(T::with_q(k, |q| c.contains(q))), exp)
            }
            IOp::Remove(k) | IOp::RemoveEntry(k) => {
                let x = self.m.take(k);
                self.departed = x.is_some() as usize;
                let c = &mut self.c;
                if matches!(op, IOp::Remove(_)) {
                    (R::V(T::with_q(k, |q| c.remove(q).map(|v| T::vtag(&v)))), R::V(x.map(|x| x.tag)))
                } else {
                    (
                        R::E(T::with_q(k, |q| c.remove_entry(q).map(|(k, v)| (T::kid(&k), T::vtag(&v))))),
                        R::E(x.map(|x| (x.id, x.tag))),
                    )
                }
            }
            IOp::Mutate(k, s) => {
                let exp = match self.m.l.iter().position(|x| x.id == k) {
                    None => R::MutOk(None),
                    Some(i) => {
                        self.mut_expect = 1;
                        let mut x = self.m.l.remove(i);
                        let old = x.size;
                        // size of the same key with the resized value
                        let mut probe = T::val(0, 0);
                        T::resize(&mut probe, s);
                        let new_actual = if T::VSEL == 1 { x.actual } else { esize::<T>(&T::key(k), &probe) };
                        // the accounted size follows the change of the value's estimate
                        let new = if new_actual >= x.actual { old + (new_actual - x.actual) } else { old - (x.actual - new_actual) };
                        x.actual = new_actual;
                        x.size = new;
                        if new > old && new > limit {
                            self.departed = 1;
                            R::MutTooLarge { id: k, tag: x.tag, old, new, max: limit }
                        } else {
                            self.m.l.push(x);
                            if new > old {
                                self.departed = self.m.evict(limit);
                            }
                            R::MutOk(Some(77))
                        }
                    }
                };
                let c = &mut self.c;
                let calls = &mut self.mut_calls;
                let act = match T::with_q(k, |q| {
                    c.mutate(q, |v| {
                        *calls += 1;
                        callback(Cb::MutPre);
                        T::resize(v, s);
                        callback(Cb::MutPost);
                        77u32
                    })
                }) {
                    Ok(r) => R::MutOk(r),
                    Err(lru_mem::MutateError::EntryTooLarge { key, value, old_entry_size, new_entry_size, max_size }) => {
                        R::MutTooLarge { id: T::kid(&key), tag: T::vtag(&value), old: old_entry_size, new: new_entry_size, max: max_size }
                    }
                };
                (act, exp)
            }
            IOp::GetLru => {
                let exp = if self.m.l.is_empty() {
                    R::E(None)
                } else {
                    let x = self.m.l.remove(0);
                    let r = R::E(Some((x.id, x.tag)));
                    self.m.l.push(x);
                    r
                };
                (R::E(self.c.get_lru().map(|(k, v)| (T::kid(k), T::vtag(v)))), exp)
            }
            IOp::PeekLru => {
                self.read_only = true;
                self.zero_hash_op = true;
                (R::E(self.c.peek_lru().map(|(k, v)| (T::kid(k), T::vtag(v)))), R::E(self.m.l.first().map(|x| (x.id, x.tag))))
            }
            IOp::PeekMru => {
                self.read_only = true;
                self.zero_hash_op = true;
                (R::E(self.c.peek_mru().map(|(k, v)| (T::kid(k), T::vtag(v)))), R::E(self.m.l.last().map(|x| (x.id, x.tag))))
            }
            IOp::RemoveLru => {
                let x = if self.m.l.is_empty() { None } else { Some(self.m.l.remove(0)) };
                self.departed = x.is_some() as usize;
                (R::E(self.c.remove_lru().map(|(k, v)| (T::kid(&k), T::vtag(&v)))), R::E(x.map(|x| (x.id, x.tag))))
            }
            IOp::RemoveMru => {
                let x = self.m.l.pop();
                self.departed = x.is_some() as usize;
                (R::E(self.c.remove_mru().map(|(k, v)| (T::kid(&k), T::vtag(&v)))), R::E(x.map(|x| (x.id, x.tag))))
            }
            IOp::SetMax(i) => {
                let nl = self.sm[i as usize];
                self.departed = self.m.evict(nl);
                self.m.limit = nl;
                self.c.set_max_size(nl);
                (R::Unit, R::Unit)
            }
            IOp::Retain(i) => {
                self.pred_expect = self.m.l.iter().map(|x| x.id).collect();
                let before = self.m.l.len();
                let masks = [0b101u32, 0b010, 0];
                if i < 3 {
                    self.m.l.retain(|x| masks[i as usize].checked_shr(x.id).unwrap_or(0) & 1 == 1);
                } else {
                    self.m.l.truncate(1);
                }
                self.departed = before - self.m.l.len();
                let seen = &mut self.pred_seen;
                self.c.retain(|k, _| {
                    let id = T::kid(k);
                    callback(Cb::Pred);
                    seen.push(id);
                    if i < 3 {
                        masks[i as usize].checked_shr(id).unwrap_or(0) & 1 == 1
                    } else {
                        seen.len() == 1
                    }
                });
                (R::Unit, R::Unit)
            }
            IOp::Reserve => {
                self.is_rebuild_op = true;
                self.c.reserve(9);
                (R::Unit, R::Unit)
            }
            IOp::TryReserve => {
                self.is_rebuild_op = true;
                (R::ReserveOk(self.c.try_reserve(9).is_ok()), R::ReserveOk(true))
            }
            IOp::ReserveFail(i) => {
                // may hash every entry before it finds out that it cannot succeed
                self.is_rebuild_op = true;
                // "leaves the cache exactly as it was"
                self.read_only = true;
                let ok = match i {
                    0 => self.c.try_reserve(usize::MAX / 2).is_ok(),
                    1 => self.c.try_reserve(usize::MAX).is_ok(),
                    _ => {
                        let c = &mut self.c;
                        match std::panic::catch_unwind(std::panic::AssertUnwindSafe(|| c.reserve(usize::MAX / 2))) {
                            Ok(()) => true,
                            Err(e) if e.downcast_ref::<InjectedPanic>().is_some() => std::panic::resume_unwind(e),
                            Err(_) => false,
                        }
                    }
                };
                (R::ReserveOk(ok), R::ReserveOk(false))
            }
            IOp::ShrinkToFit => {
                self.is_rebuild_op = true;
                self.c.shrink_to_fit();
                (R::Unit, R::Unit)
            }
            IOp::ShrinkTo0 => {
                self.is_rebuild_op = true;
                self.c.shrink_to(0);
                (R::Unit, R::Unit)
            }
            IOp::Clear => {
                self.zero_hash_op = true;
                self.m.l.clear();
                self.c.clear();
                (R::Unit, R::Unit)
            }
            IOp::CloneSwap => {
                self.is_rebuild_op = true;
                self.cloned = true;
                if T::CLONE_BUMPS {
                    self.m.l.iter_mut().for_each(|x| x.tag += 1);
                }
                let before = dump_fingerprint(&self.c.verif_dump());
                let c2 = self.c.clone();
                self.source_changed = before != dump_fingerprint(&self.c.verif_dump());
                self.c = c2;
                self.refresh_actual();
                (R::Unit, R::Unit)
            }
            IOp::CloneFrom(t) => {
                self.is_rebuild_op = true;
                self.cloned = true;
                let p0 = hashes();
                let other = if self.hk == HK::Const { HK::Spread } else { HK::Const };
                let saved_fuel = fuel();
                set_fuel(None);
                let saved_counts = counts();
                let target: LruCache<T::K, T::V, T::S> = match t {
                    0 => T::mk(0, None, self.hk),
                    1 => {
                        let mut x = T::mk(usize::MAX, Some(16), other);
                        for k in 0..2u32.min(T::NKEYS) {
                            let (v, _) = self.fresh(0);
                            let _ = x.insert(T::key(T::NKEYS - 1 - k), v);
                        }
                        x
                    }
                    2 => {
                        let mut x = self.c.clone();
                        let _ = x.remove_mru();
                        x
                    }
                    _ => T::mk(usize::MAX, Some(self.c.len() / 2), self.hk),
                };
                let _ = saved_counts;
                set_fuel(saved_fuel);
                if T::CLONE_BUMPS {
                    self.m.l.iter_mut().for_each(|x| x.tag += 1);
                }
                let tl = target.len();
                let before = dump_fingerprint(&self.c.verif_dump());
                self.hash_exclude = hashes() - p0;
                self.pending = Some(target);
                self.pending.as_mut().unwrap().clone_from(&self.c);
                let target = self.pending.take().unwrap();
                self.source_changed = before != dump_fingerprint(&self.c.verif_dump());
                // the target's old entries leave it
                self.departed = tl;
                self.c = target;
                self.refresh_actual();
                (R::Unit, R::Unit)
            }
            IOp::Drain(pat) => {
                self.zero_hash_op = true;
                let rest: std::collections::VecDeque<(u32, u32)> = self.m.l.drain(..).map(|x| (x.id, x.tag)).collect();
                let n = rest.len();
                let exp = drive(rest.into_iter(), pat, n, |x| x);
                let act = {
                    let d = self.c.drain();
                    drive(d, pat, n, |(k, v)| (T::kid(&k), T::vtag(&v)))
                };
                (R::Drained(act), R::Drained(exp))
            }
            IOp::CloneDisturb(i) => {
                self.is_rebuild_op = true;
                self.cloned = true;
                if T::CLONE_BUMPS {
                    self.m.l.iter_mut().for_each(|x| x.tag += 1);
                }
                let mut src = self.c.clone();
                std::mem::swap(&mut self.c, &mut src);
                // `src` is the original now; whatever happens to it must not show in the clone
                let p0 = hashes();
                let saved_fuel = fuel();
                set_fuel(None);
                match i {
                    0 => src.clear(),
                    1 => {
                        let _ = src.remove_lru();
                        let (v, _) = self.fresh(0);
                        let _ = src.insert(T::key(0), v);
                        src.set_max_size(0);
                    }
                    2 => {
                        let mut d = src.drain();
                        let _ = d.next();
                        std::mem::forget(d);
                        self.leaky = true;
                    }
                    _ => {
                        if let Some(k) = self.m.l.last().map(|x| x.id) {
                            let _ = T::with_q(k, |q| src.mutate(q, |v| T::resize(v, T::VSEL - 1)));
                        }
                        src.retain(|_, _| false);
                    }
                }
                drop(src);
                set_fuel(saved_fuel);
                self.hash_exclude = hashes() - p0;
                self.refresh_actual();
                (R::Unit, R::Unit)
            }
            IOp::ReadAll => {
                self.read_only = true;
                self.is_rebuild_op = true; // clone() hashes every entry once
                let c = &self.c;
                let n = c.len();
                let mut seen = (c.is_empty() as usize) + c.capacity().min(1) + c.current_size().min(1) + c.max_size().min(1);
                let _ = c.hasher();
                seen += c.iter().count() + c.iter().rev().count() + c.keys().count() + c.values().rev().count();
                let d = c.clone();
                seen += d.len();
                drop(d);
                let _ = seen;
                (R::V(Some(n as u32)), R::V(Some(self.m.l.len() as u32)))
            }
            IOp::Owning(kind, pat) => {
                self.zero_hash_op = true;
                let fresh = T::mk(limit, None, self.hk);
                let old = std::mem::replace(&mut self.c, fresh);
                let rest: std::collections::VecDeque<(u32, u32)> = self.m.l.drain(..).map(|x| (x.id, x.tag)).collect();
                let n = rest.len();
                let exp = match kind {
                    0 => drive(rest.into_iter(), pat, n, |x| x),
                    1 => drive(rest.into_iter(), pat, n, |x| (x.0, 0)),
                    _ => drive(rest.into_iter(), pat, n, |x| (0, x.1)),
                };
                let act = match kind {
                    0 => drive(old.into_iter(), pat, n, |(k, v)| (T::kid(&k), T::vtag(&v))),
                    1 => drive(old.into_keys(), pat, n, |k| (T::kid(&k), 0)),
                    _ => drive(old.into_values(), pat, n, |v| (0, T::vtag(&v))),
                };
                (R::Drained(act), R::Drained(exp))
            }
            IOp::DrainForget(n) => {
                self.zero_hash_op = true;
                let mut exp = vec![];
                let mut act = vec![];
                let mut d = self.c.drain();
                for i in 0..n as usize {
                    if let Some(x) = self.m.l.get(i) {
                        exp.push((x.id, x.tag));
                    }
                    if let Some((k, v)) = d.next() {
                        act.push((T::kid(&k), T::vtag(&v)));
                    }
                }
                std::mem::forget(d);
                // whatever was not yielded may leak; the cache is empty afterwards
                self.leaky = true;
                self.m.l.clear();
                (R::Drained(act), R::Drained(exp))
            }
        }
    }
}

// ---------------------------------------------------------------------------
// checks and enumeration
// ---------------------------------------------------------------------------

fn owner(op: IOp) -> Props {
    match op {
        IOp::Insert(..) => p(4) | p(3),
        IOp::TryInsert(..) => p(10),
        IOp::Get(_) | IOp::GetEntry(_) | IOp::Touch(_) | IOp::GetLru => p(5),
        IOp::Peek(_) | IOp::PeekEntry(_) | IOp::Contains(_) | IOp::PeekLru | IOp::PeekMru => p(19) | p(4),
        IOp::Remove(_) | IOp::RemoveEntry(_) | IOp::RemoveLru | IOp::RemoveMru => p(4),
        IOp::Mutate(..) => p(11),
        IOp::SetMax(_) => p(3) | p(1),
        IOp::Retain(_) => p(15),
        IOp::Reserve | IOp::TryReserve | IOp::ReserveFail(_) | IOp::ShrinkToFit | IOp::ShrinkTo0 => p(13),
        IOp::Clear => p(2) | p(6),
        IOp::CloneSwap | IOp::CloneFrom(_) => p(14),
        IOp::Drain(_) => p(12),
        IOp::DrainForget(_) => p(17),
        IOp::Owning(..) => p(12) | p(6),
        IOp::ReadAll => p(19),
        IOp::CloneDisturb(_) => p(14),
    }
}

#[derive(Default)]
pub struct InstResult {
    pub sequences: u64,
    pub steps: u64,
    pub checks: u64,
    pub faults: u64,
    pub violations: Vec<Violation>,
    pub outcomes: std::collections::BTreeSet<&'static str>,
}

fn outcome_class(r: &R) -> &'static str {
    match r {
        R::Unit => "inst:unit",
        R::B(_) => "inst:bool",
        R::V(None) | R::E(None) => "inst:absent",
        R::V(Some(_)) | R::E(Some(_)) => "inst:present",
        R::InsOk(None) => "inst:insert:fresh",
        R::InsOk(Some(_)) => "inst:insert:replace",
        R::InsTooLarge { .. } => "inst:insert:too-large",
        R::TryOk => "inst:try:ok",
        R::TryOccupied { .. } => "inst:try:occupied",
        R::TryWouldEject { .. } => "inst:try:would-eject",
        R::TryTooLarge { .. } => "inst:try:too-large",
        R::MutOk(None) => "inst:mutate:absent",
        R::MutOk(Some(_)) => "inst:mutate:ok",
        R::MutTooLarge { .. } => "inst:mutate:too-large",
        R::Drained(_) => "inst:drained",
        R::ReserveOk(_) => "inst:reserve",
    }
}

#[derive(Clone)]
struct Job {
    hk: HK,
    /// 0: tight (after the prefix the limit is lowered to exactly the current size;
    /// for an empty prefix: one small plus one large entry)
    limit: usize,
    cap: Option<usize>,
    depth: usize,
    /// executed first, unchecked (each prefix is itself a checked sequence of another job or of the ladder)
    prefix: Vec<IOp>,
    /// second steps are explored only after these first steps (None: after all)
    second_after: Option<Vec<IOp>>,
    label: &'static str,
    /// Some: explore only these operations (deep jobs over a core alphabet)
    alpha: Option<Vec<IOp>>,
    /// the cache starts with this many fresh entries (keys 0..n, alternating sizes), inserted
    /// without a per-step reference check (the small fills check every step)
    preload: usize,
    /// after the preload: a periodic schedule (the pattern repeated until so many steps were
    /// executed), every step compared with the reference
    churn: Option<(Vec<IOp>, usize)>,
    /// position in the deterministic job list (containment records)
    id: u32,
    /// 0 = differential, 1 = fault injection
    mode: u8,
    /// records of sequences that killed or stalled an earlier attempt: not executed, reported
    skips: std::sync::Arc<Vec<(String, String)>>,
}

fn code(op: IOp) -> [u8; 3] {
    match op {
        IOp::Insert(k, s) => [0, k as u8, s as u8],
        IOp::TryInsert(k, s) => [1, k as u8, s as u8],
        IOp::Get(k) => [2, k as u8, 0],
        IOp::GetEntry(k) => [3, k as u8, 0],
        IOp::Peek(k) => [4, k as u8, 0],
        IOp::PeekEntry(k) => [5, k as u8, 0],
        IOp::Contains(k) => [6, k as u8, 0],
        IOp::Touch(k) => [7, k as u8, 0],
        IOp::Remove(k) => [8, k as u8, 0],
        IOp::RemoveEntry(k) => [9, k as u8, 0],
        IOp::Mutate(k, s) => [10, k as u8, s as u8],
        IOp::GetLru => [11, 0, 0],
        IOp::PeekLru => [12, 0, 0],
        IOp::PeekMru => [13, 0, 0],
        IOp::RemoveLru => [14, 0, 0],
        IOp::RemoveMru => [15, 0, 0],
        IOp::SetMax(i) => [16, i, 0],
        IOp::Retain(i) => [17, i, 0],
        IOp::Reserve => [18, 0, 0],
        IOp::TryReserve => [19, 0, 0],
        IOp::ShrinkToFit => [20, 0, 0],
        IOp::ShrinkTo0 => [21, 0, 0],
        IOp::Clear => [22, 0, 0],
        IOp::CloneSwap => [23, 0, 0],
        IOp::CloneFrom(t) => [24, t, 0],
        IOp::Drain(x) => [25, x, 0],
        IOp::DrainForget(n) => [26, n, 0],
        IOp::Owning(a, b) => [27, a, b],
        IOp::ReadAll => [28, 0, 0],
        IOp::CloneDisturb(i) => [29, i, 0],
        IOp::ReserveFail(i) => [30, i, 0],
    }
}

fn uncode(c: &[u8]) -> Option<IOp> {
    let (k, s) = (c[1] as u32, c[2] as usize);
    Some(match c[0] {
        0 => IOp::Insert(k, s),
        1 => IOp::TryInsert(k, s),
        2 => IOp::Get(k),
        3 => IOp::GetEntry(k),
        4 => IOp::Peek(k),
        5 => IOp::PeekEntry(k),
        6 => IOp::Contains(k),
        7 => IOp::Touch(k),
        8 => IOp::Remove(k),
        9 => IOp::RemoveEntry(k),
        10 => IOp::Mutate(k, s),
        11 => IOp::GetLru,
        12 => IOp::PeekLru,
        13 => IOp::PeekMru,
        14 => IOp::RemoveLru,
        15 => IOp::RemoveMru,
        16 => IOp::SetMax(c[1]),
        17 => IOp::Retain(c[1]),
        18 => IOp::Reserve,
        19 => IOp::TryReserve,
        20 => IOp::ShrinkToFit,
        21 => IOp::ShrinkTo0,
        22 => IOp::Clear,
        23 => IOp::CloneSwap,
        24 => IOp::CloneFrom(c[1]),
        25 => IOp::Drain(c[1]),
        26 => IOp::DrainForget(c[1]),
        27 => IOp::Owning(c[1], c[2]),
        28 => IOp::ReadAll,
        29 => IOp::CloneDisturb(c[1]),
        30 => IOp::ReserveFail(c[1]),
        _ => return None,
    })
}

/// record layout: [mode, fault kind, fault idx lo, fault idx hi, name len, name.., label len, label.., hk, tight, 3 bytes per operation of prefix ++ [255,0,0] ++ sequence]
fn record(job: &Job, name: &str, seq: &[IOp], fault: Option<(Cb, u32)>) -> Vec<u8> {
    record_mode(job, job.mode, name, seq, fault)
}

/// mode 0: executing the sequence (differential); 1: fault injection; 2: the iterator
/// patterns of the state check that follows the sequence
fn record_mode(job: &Job, mode: u8, name: &str, seq: &[IOp], fault: Option<(Cb, u32)>) -> Vec<u8> {
    let mut v = Vec::with_capacity(16 + name.len() + 3 * (job.prefix.len() + seq.len() + 1));
    v.push(mode);
    v.push(fault.map(|f| f.0 as u8).unwrap_or(255));
    let idx = fault.map(|f| f.1).unwrap_or(0) as u16;
    v.extend_from_slice(&idx.to_le_bytes());
    let name = &name.as_bytes()[..name.len().min(120)];
    v.push(name.len() as u8);
    v.extend_from_slice(name);
    let label = if job.preload > 0 { format!("{} ({} entries preloaded)", job.label, job.preload) } else { job.label.to_string() };
    v.push(label.len() as u8);
    v.extend_from_slice(label.as_bytes());
    v.push(job.hk as u8);
    v.push((job.limit == 0) as u8);
    for op in job.prefix.iter().take(40) {
        v.extend_from_slice(&code(*op));
    }
    v.extend_from_slice(&[255, 0, 0]);
    for op in seq {
        v.extend_from_slice(&code(*op));
    }
    v
}

/// Human-readable form of a containment record (for the driver's log and the violation text).
pub fn describe_raw(job_id: u64, b: &[u8]) -> Vec<String> {
    let mut out = vec![];
    let mut i = 4usize;
    let get = |i: &mut usize| -> String {
        let n = b.get(*i).copied().unwrap_or(0) as usize;
        let s = String::from_utf8_lossy(b.get(*i + 1..*i + 1 + n).unwrap_or(&[])).to_string();
        *i += 1 + n;
        s
    };
    let name = get(&mut i);
    let label = get(&mut i);
    let hk = b.get(i).copied().unwrap_or(0);
    let tight = b.get(i + 1).copied().unwrap_or(0);
    i += 2;
    let mut prefix = vec![];
    let mut seq = vec![];
    let mut in_seq = false;
    while i + 3 <= b.len() {
        if b[i] == 255 {
            in_seq = true;
        } else if let Some(op) = uncode(&b[i..i + 3]) {
            if in_seq {
                seq.push(op)
            } else {
                prefix.push(op)
            }
        }
        i += 3;
    }
    out.push(format!("instantiation-variant job #{job_id}: {name}, hasher kind {hk}, {}", if tight == 1 { "limit exactly the current size after the prefix" } else { "limit usize::MAX" }));
    if !prefix.is_empty() {
        out.push(format!("prefix {label}{}: {prefix:?}", if prefix.len() == 40 { " (first 40 steps)" } else { "" }));
    }
    out.push(format!("sequence: {seq:?}"));
    if b.first() == Some(&1) && b.get(1) != Some(&255) {
        out.push(format!("with a panic injected into callback kind {} invocation #{}", b[1], u16::from_le_bytes([b[2], b[3]])));
    }
    if b.first() == Some(&2) {
        out.push("while the borrowing iterators of the resulting state were driven through the sixteen patterns".to_string());
    }
    out
}

/// Properties that own a crash / hang recorded in `raw` ("<job>:<hex>"), and its description.
/// `why`: what happened (a stall in an evicting operation is owned by the accounting property
/// as well: the only state-dependent loop of the crate is the eviction loop, which fails to end
/// exactly when current_size exceeds what the held entries account for)
pub fn owned_by_why(raw: &str, why: &str) -> (Props, Vec<String>) {
    let (mut props, text) = owned_by(raw);
    if why.contains("no progress") && text.iter().any(|l| l.contains("evicting-last-op")) {
        props |= p(2);
    }
    (props, text.into_iter().filter(|l| !l.contains("evicting-last-op")).collect())
}

pub fn owned_by(raw: &str) -> (Props, Vec<String>) {
    let Some((job, hex)) = raw.split_once(':') else { return (0, vec![]) };
    let b: Vec<u8> = (0..hex.len() / 2).filter_map(|i| u8::from_str_radix(&hex[2 * i..2 * i + 2], 16).ok()).collect();
    let mut i = 4usize;
    for _ in 0..2 {
        i += 1 + b.get(i).copied().unwrap_or(0) as usize;
    }
    i += 2;
    let mut last = None;
    let mut forgot = false;
    while i + 3 <= b.len() {
        if let Some(op) = uncode(&b[i..i + 3]) {
            forgot |= matches!(op, IOp::DrainForget(_));
            last = Some(op);
        }
        i += 3;
    }
    let mut props = p(6) | p(7) | last.map(owner).unwrap_or(0);
    if forgot {
        props |= p(17);
    }
    if b.first() == Some(&1) {
        props = p(16);
    }
    if b.first() == Some(&2) {
        props = p(12) | p(5) | p(6) | p(7);
    }
    let mut text = describe_raw(job.parse().unwrap_or(0), &b);
    if matches!(last, Some(IOp::Insert(..) | IOp::Mutate(..) | IOp::SetMax(_))) && b.first() == Some(&0) {
        text.push("evicting-last-op".into());
    }
    (props, text)
}

fn raw_key(job: &Job, rec: &[u8]) -> String {
    format!("{}:{}", job.id, rec.iter().map(|b| format!("{b:02x}")).collect::<String>())
}

/// Publishes what is about to run; returns the reason if an earlier attempt died on exactly this.
fn announce(job: &Job, name: &str, seq: &[IOp], fault: Option<(Cb, u32)>) -> Option<String> {
    let rec = record(job, name, seq, fault);
    if !job.skips.is_empty() {
        let k = raw_key(job, &rec);
        if let Some((_, why)) = job.skips.iter().find(|x| x.0 == k) {
            return Some(why.clone());
        }
    }
    crate::contain::mark_raw(4, job.id as u64, &rec);
    None
}

/// The same for the iterator patterns of the state check.
fn announce_patterns(job: &Job, name: &str, seq: &[IOp]) -> Option<String> {
    let rec = record_mode(job, 2, name, seq, None);
    if !job.skips.is_empty() {
        let k = raw_key(job, &rec);
        if let Some((_, why)) = job.skips.iter().find(|x| x.0 == k) {
            return Some(why.clone());
        }
    }
    crate::contain::mark_raw(4, job.id as u64, &rec);
    None
}

/// The bytes of the cache object itself (not of what it points to).
fn object_bytes<T: Inst>(c: &LruCache<T::K, T::V, T::S>) -> Vec<u8> {
    let n = std::mem::size_of_val(c);
    let p = c as *const LruCache<T::K, T::V, T::S> as *const u8;
    (0..n).map(|i| unsafe { std::ptr::read_volatile(p.add(i)) }).collect()
}

/// Explored only as the last operation of a sequence: what follows them starts
/// from a fresh cache (owning iterators) or from the same emptied cache as after Drain(0).
fn terminal_only(op: IOp) -> bool {
    matches!(op, IOp::Owning(..)) || matches!(op, IOp::Drain(p) if p != 0)
}

fn is_shared_ref_op(op: IOp) -> bool {
    matches!(op, IOp::Peek(_) | IOp::PeekEntry(_) | IOp::Contains(_) | IOp::PeekLru | IOp::PeekMru | IOp::ReadAll | IOp::CloneSwap)
}

fn run_seq<T: Inst>(job: &Job, sm: [usize; 5], seq: &[IOp], out: &mut InstResult) {
    reg_reset();
    let last = *seq.last().unwrap();
    if let Some(why) = announce(job, T::NAME, seq, None) {
        out.violations.push(Violation {
            props: owner(last) | p(6) | p(7) | if seq.iter().any(|o| matches!(o, IOp::DrainForget(_))) { p(17) } else { 0 },
            rule: "C07.crash",
            detail: format!("{}: {why}", describe_raw(job.id as u64, &record(job, T::NAME, seq, None)).join("; ")),
        });
        return;
    }
    // &self operations, first pass: without asking the hook for a dump beforehand (the
    // hook is itself a &self reader and could mask lazily initialised state), the
    // cache object's own bytes must be the same before and after
    let mut object_changed = false;
    if is_shared_ref_op(last) {
        let r = std::panic::catch_unwind(std::panic::AssertUnwindSafe(|| {
            let run = build_run::<T>(job, sm, &seq[..seq.len() - 1]);
            let before = object_bytes::<T>(&run.c);
            let c = &run.c;
            match last {
                IOp::Peek(k) => {
                    T::with_q(k, |q| c.peek(q).is_some());
                }
                IOp::PeekEntry(k) => {
                    T::with_q(k, |q| c.peek_entry(q).is_some());
                }
                IOp::Contains(k) => {
                    T::with_q(k, |q| c.contains(q));
                }
                IOp::PeekLru => {
                    let _ = c.peek_lru();
                }
                IOp::PeekMru => {
                    let _ = c.peek_mru();
                }
                IOp::CloneSwap => drop(c.clone()),
                _ => {
                    let _ = (c.len(), c.is_empty(), c.capacity(), c.current_size(), c.max_size());
                    let _ = c.hasher();
                    let _ = c.iter().count() + c.iter().rev().count() + c.keys().count() + c.values().count();
                }
            }
            let after = object_bytes::<T>(&run.c);
            before != after
        }));
        object_changed = r.unwrap_or(false);
        let _ = take_reg_violations();
        reg_reset();
    }
    let res = std::panic::catch_unwind(std::panic::AssertUnwindSafe(|| {
        let mut problems: Vec<(Props, &'static str, String)> = vec![];
        if object_changed {
            problems.push((p(19), "C19.object-bytes", "an operation on a shared reference changed the bytes of the cache object itself".to_string()));
        }
        let mut run: Run<T> = Run::new(if job.limit == 0 { usize::MAX } else { job.limit }, job.cap, job.hk, sm);
        run.preload(job.preload);
        if let Some((pat, n)) = &job.churn {
            if let Some(why) = run.churn(pat, *n) {
                problems.push((p(4) | p(2), "C04.churn", why));
            }
        }
        for op in &job.prefix {
            let _ = run.step(*op);
        }
        if job.limit == 0 {
            let l = if job.prefix.is_empty() { sm[1] + sm[2] } else { run.m.cur() };
            run.m.limit = l;
            run.c.set_max_size(l);
        }
        for op in &seq[..seq.len() - 1] {
            let _ = run.step(*op);
        }
        let own = owner(last);
        let pre_dump = run.c.verif_dump();
        let pre_fp = dump_fingerprint(&pre_dump);
        let pre_len = run.c.len();
        let pre_cap = run.c.capacity();
        let h0 = hashes();
        crate::trap::quarantine_begin();
        let (act, exp) = run.step(last);
        let waf = crate::trap::quarantine_end();
        let used = hashes() - h0 - run.hash_exclude;
        let d = run.c.verif_dump();
        // structure first: nothing below walks a broken list
        if let Err(why) = walk(&d) {
            problems.push((p(7) | own, "C07.structure", format!("the list/table structure is incoherent: {why}")));
            std::mem::forget(run);
            return (problems, "inst:broken");
        }
        if let Some(why) = waf {
            problems.push((own | p(7), "C07.write-after-free", why));
        }
        if act != exp {
            problems.push((own | p(4), "C04.return", format!("returned {act:?}, a sequential map returns {exp:?}")));
        }
        let c = &run.c;
        let got: Vec<(u32, u32, usize)> = c.iter().map(|(k, v)| (T::kid(k), T::vtag(v), esize::<T>(k, v))).collect();
        let want: Vec<(u32, u32)> = run.m.l.iter().map(|x| (x.id, x.tag)).collect();
        let got_it: Vec<(u32, u32)> = got.iter().map(|x| (x.0, x.1)).collect();
        if got_it != want {
            let mut a = got_it.clone();
            let mut b = want.clone();
            a.sort();
            b.sort();
            if a == b {
                problems.push((own | p(5) | p(3), "C05.order", format!("recency order (LRU first, (key, value#)) is {got_it:?}, expected {want:?}")));
            } else {
                let evicting = matches!(last, IOp::Insert(..) | IOp::SetMax(_) | IOp::Mutate(..));
                problems.push((own | p(4) | if evicting { p(3) | p(1) } else { 0 }, "C04.contents", format!("contents (LRU first, (key, value#)) are {got_it:?}, expected {want:?}")));
            }
        }
        let cur = c.current_size();
        let model_sum: usize = run.m.l.iter().map(|x| x.size).sum();
        let actual_sum: usize = got.iter().map(|x| x.2).sum();
        if got_it == want {
            if cur != model_sum {
                problems.push((own | p(2), "C02.exact", format!("current_size() = {cur}, the sizes of the held entries add up to {model_sum}")));
            } else if !(run.cloned && T::CLONE_CHANGES_SIZE) && cur != actual_sum {
                problems.push((own | p(2), "C02.exact", format!("current_size() = {cur}, Σ entry_size over iter() = {actual_sum}")));
            }
        }
        if cur > c.max_size() {
            problems.push((own | p(1), "C01.bound", format!("current_size() = {cur} > max_size() = {}", c.max_size())));
        }
        if c.max_size() != run.m.limit {
            problems.push((own | p(1) | p(4), "C04.limit", format!("max_size() = {}, expected {}", c.max_size(), run.m.limit)));
        }
        if c.len() != got.len() || c.is_empty() != got.is_empty() || (cur == 0) != got.is_empty() {
            problems.push((own | p(2), "C02.len", format!("len() = {}, is_empty() = {}, current_size() = {cur} with {} entries held", c.len(), c.is_empty(), got.len())));
        }
        if run.pred_seen != run.pred_expect {
            problems.push((p(15), "C15.calls", format!("predicate visited keys {:?}, expected LRU to MRU once each: {:?}", run.pred_seen, run.pred_expect)));
        }
        if run.mut_calls != run.mut_expect {
            problems.push((p(11), "C11.calls", format!("closure ran {} times, expected {}", run.mut_calls, run.mut_expect)));
        }
        if T::COUNTS_HASHES {
            let rebuilt = d.buckets != pre_dump.buckets || d.alloc_addr != pre_dump.alloc_addr;
            let rebuild = run.is_rebuild_op || (matches!(last, IOp::Insert(..) | IOp::TryInsert(..)) && rebuilt);
            let bound = if run.zero_hash_op { 0 } else { 2 + run.departed as u64 + if rebuild { pre_len.max(c.len()) as u64 } else { 0 } };
            if used > bound {
                problems.push((p(20), "C20.hashes", format!("{used} key hashes computed; bound is {bound} (len before {pre_len}, {} entries left, table rebuilt: {rebuilt})", run.departed)));
            }
        }
        if run.read_only && dump_fingerprint(&d) != pre_fp {
            if matches!(last, IOp::ReserveFail(_)) {
                problems.push((p(13), "C13.failed-unchanged", "a failing reservation changed the raw layout of the cache".to_string()));
            } else {
                problems.push((p(19), "C19.unchanged", "a read-only operation changed the raw layout of the cache".to_string()));
            }
        }
        if run.source_changed {
            problems.push((p(19) | p(14), "C14.source", "cloning changed the raw layout of the source".to_string()));
        }
        if matches!(last, IOp::CloneSwap) && c.capacity() < pre_cap {
            problems.push((p(14), "C14.capacity", format!("clone has capacity {} < source {pre_cap}", c.capacity())));
        }
        if matches!(last, IOp::Reserve | IOp::TryReserve) && c.capacity() < c.len() + 9 {
            problems.push((p(13), "C13.reserve", format!("after reserve(9) capacity() = {} < len {} + 9", c.capacity(), c.len())));
        }
        if c.capacity() < c.len() {
            problems.push((own | p(13), "C13.capacity", format!("capacity() = {} < len() = {}", c.capacity(), c.len())));
        }
        // the borrowing iterators agree with the order
        let ks: Vec<u32> = c.keys().map(|k| T::kid(k)).collect();
        let vs: Vec<u32> = c.values().rev().map(|v| T::vtag(v)).collect();
        let want_k: Vec<u32> = want.iter().map(|x| x.0).collect();
        let want_v: Vec<u32> = want.iter().rev().map(|x| x.1).collect();
        if (ks != want_k || vs != want_v) && got_it == want {
            problems.push((p(12), "C12.sequence", format!("keys() yields {ks:?} (expected {want_k:?}), values().rev() yields {vs:?} (expected {want_v:?})")));
        }
        if got_it == want {
            // every lookup returns the entry the traversal holds for that key
            for id in 0..T::NKEYS.max(want.iter().map(|x| x.0 + 1).max().unwrap_or(0)).min(8) {
                let held = want.iter().find(|x| x.0 == id).copied();
                let found = quiet(|| T::with_q(id, |q| c.peek_entry(q).map(|(k, v)| (T::kid(k), T::vtag(v)))));
                let has = quiet(|| T::with_q(id, |q| c.contains(q)));
                if found != held || has != held.is_some() {
                    problems.push((own | p(4) | p(7), "C04.lookup", format!("peek_entry of key {id} finds {found:?}, contains says {has}, but the cache holds {held:?}")));
                    break;
                }
            }
        }
        if got_it == want && seq.len() <= 2 {
            if let Some(why) = announce_patterns(job, T::NAME, seq) {
                problems.push((p(12) | p(5), "C12.hang", format!("driving the borrowing iterators of this state did not come back in an earlier attempt: {why}")));
            } else {
            let n = want.len();
            for pat in 0..NPATS {
                let model: std::collections::VecDeque<(u32, u32)> = want.iter().copied().collect();
                let e = drive(model.clone().into_iter(), pat, n, |x| x);
                let ek = drive(model.clone().into_iter(), pat, n, |x| (x.0, 0));
                let ev = drive(model.into_iter(), pat, n, |x| (0, x.1));
                let runaway = vec![(COUNT, COUNT)];
                let guard = |r: std::thread::Result<Vec<(u32, u32)>>| r.unwrap_or_else(|_| runaway.clone());
                let a = guard(std::panic::catch_unwind(std::panic::AssertUnwindSafe(|| drive(c.iter(), pat, n, |(k, v)| (T::kid(k), T::vtag(v))))));
                let ak = guard(std::panic::catch_unwind(std::panic::AssertUnwindSafe(|| drive(c.keys(), pat, n, |k| (T::kid(k), 0)))));
                let av = guard(std::panic::catch_unwind(std::panic::AssertUnwindSafe(|| drive(c.values(), pat, n, |v| (0, T::vtag(v))))));
                for (what, a, e) in [("iter()", a, e), ("keys()", ak, ek), ("values()", av, ev)] {
                    if a != e {
                        problems.push((p(12) | p(5), "C12.sequence", format!("{what} driven by pattern {pat} (0 front, 1 back, 2 alternating, 3 next+last, 4 exhausted+last, 5 met in the middle+last, 6 next_back+count, 7 nth+count, 8 next+rev, 9 exhausted from the back+last, 10 next+rfold, 11 exhausted+rev().for_each, 12 exhausted from the back+for_each, 13 next_back+find, 14 next+rfind, 15 met in the middle+fold, 16 next+next_back, then the consumer panics and the iterator is dropped by the unwinding) yields {a:?}, expected {e:?} ((u32::MAX, u32::MAX) = None; [(COUNT, COUNT)] = the iterator panicked or did not stop)")));
                        break;
                    }
                }
            }
            }
        }
        // "mutate ... updates its accounted size to the new value's size": what is accounted for
        // the mutated entry is what its removal gives back (a probe on this run's own cache,
        // which is discarded afterwards)
        if let IOp::Mutate(k, _) = last {
            let ok_so_far = problems.is_empty() && got_it == want;
            if let (true, Some(x)) = (ok_so_far, run.m.l.iter().find(|x| x.id == k)) {
                let expect = model_sum - x.size;
                let removed = quiet(|| T::with_q(k, |q| run.c.remove(q).is_some()));
                let now = run.c.current_size();
                if removed && now != expect {
                    problems.push((p(11) | p(2), "C11.accounted", format!("after the mutate, removing the mutated entry (accounted with {} bytes) leaves current_size() = {now}, expected {expect}", x.size)));
                }
            }
        }
        let cls = if run.leaky { "inst:leaky" } else { outcome_class(&act) };
        drop(run);
        (problems, cls)
    }));
    out.checks += 1;
    out.steps += seq.len() as u64;
    let own = owner(last);
    let mut leaky = false;
    let mut problems = match res {
        Ok((pr, cls)) => {
            leaky = cls == "inst:leaky";
            out.outcomes.insert(cls);
            pr
        }
        Err(e) => {
            let msg = e.downcast_ref::<String>().cloned().or_else(|| e.downcast_ref::<&str>().map(|s| s.to_string())).unwrap_or_else(|| "<non-string panic>".into());
            vec![(own | p(7), "C07.panic", format!("panicked: {msg}"))]
        }
    };
    for r in take_reg_violations() {
        problems.push((own | p(6), "C06.registry", r));
    }
    if T::TRACKED && !leaky {
        let still = live_serials();
        if !still.is_empty() && !problems.iter().any(|x| x.1 == "C07.structure") {
            problems.push((own | p(6), "C06.leak", format!("{} instance(s) still alive after the cache and everything it returned were dropped", still.len())));
        }
    }
    for (props, rule, detail) in problems {
        if out.violations.len() < 64 {
            out.violations.push(Violation {
                props,
                rule,
                detail: format!(
                    "{} [{}, {}, capacity {:?}]: after {}{:?}: {}",
                    T::NAME,
                    job.hk.name(),
                    if job.limit == usize::MAX { "limit usize::MAX" } else { "limit set to exactly the current size after the prefix (empty prefix: one small + one large entry)" },
                    job.cap,
                    if job.preload > 0 { format!("{} fresh entries (keys 0..{}, sizes alternating) then ", job.preload, job.preload) } else if job.prefix.is_empty() { String::new() } else { format!("prefix {} = {:?} then ", job.label, job.prefix) },
                    seq,
                    detail
                ),
            });
        }
    }
}

fn run_job<T: Inst>(job: Job) -> InstResult {
    let mut out = InstResult::default();
    let k0 = T::key(0);
    let small = esize::<T>(&k0, &T::val(0, 0));
    let large = esize::<T>(&k0, &T::val(0, T::VSEL - 1));
    if small != lru_mem::entry_size(&k0, &T::val(0, 0)) {
        out.violations.push(Violation {
            props: p(2),
            rule: "C02.entry-size",
            detail: format!("{}: entry_size(k, v) = {}, expected size_of::<Entry<K, V>>() + heap = {small}", T::NAME, lru_mem::entry_size(&k0, &T::val(0, 0))),
        });
    }
    let sm = [0, small, large, 2 * large, usize::MAX];
    let alpha = job.alpha.clone().unwrap_or_else(alphabet::<T>);
    // prefix keys are taken modulo the number of keys of the instantiation where it is small
    let job = Job {
        prefix: job
            .prefix
            .iter()
            .map(|op| match *op {
                IOp::Insert(k, s) if T::NKEYS < 3 => IOp::Insert(k % T::NKEYS, s.min(T::VSEL - 1)),
                IOp::Insert(k, s) => IOp::Insert(k, s.min(T::VSEL - 1)),
                IOp::Remove(k) if T::NKEYS < 3 => IOp::Remove(k % T::NKEYS),
                o => o,
            })
            .collect(),
        ..job
    };
    let mut seq: Vec<IOp> = vec![];
    fn rec<T: Inst>(job: &Job, sm: [usize; 5], alpha: &[IOp], seq: &mut Vec<IOp>, out: &mut InstResult) {
        if seq.len() == job.depth {
            return;
        }
        for op in alpha {
            seq.push(*op);
            out.sequences += 1;
            run_seq::<T>(job, sm, seq, out);
            let descend = match &job.second_after {
                Some(firsts) if seq.len() == 1 => firsts.contains(op),
                _ => true,
            };
            if out.violations.len() < 64 && descend && !terminal_only(*op) {
                rec::<T>(job, sm, alpha, seq, out);
            }
            seq.pop();
        }
    }
    rec::<T>(&job, sm, &alpha, &mut seq, &mut out);
    out
}

/// All instantiations x {constant, spread} hasher x {unbounded, tight} start.
pub fn explore(depth: usize, ladder: usize, deep: usize, huge: &[usize], threads: usize, skips: &[(String, String)]) -> InstResult {
    explore_for(0, depth, ladder, deep, huge, threads, skips)
}

/// `sel`: the properties under check. Shallow sequences are judged first (all sequences of
/// one operation, then of <= 2 operations, each in a pass of its own): a change that lets the accounting drift makes
/// deeper sequences spin in the eviction loop, and every such hang costs a restart of the
/// engine - a verdict that a short sequence already gives must not be lost to that.
pub fn explore_for(sel: Props, depth: usize, ladder: usize, deep: usize, huge: &[usize], threads: usize, skips: &[(String, String)]) -> InstResult {
    if depth > 2 && sel != 0 {
        for d in 1..=2 {
            let shallow = explore_for(sel, d, if d == 1 { 0 } else { ladder.min(12) }, 0, &[], threads, skips);
            if shallow.violations.iter().any(|v| v.props & sel != 0) {
                return shallow;
            }
        }
    }
    let skips = std::sync::Arc::new(skips.to_vec());
    type JobFn = Box<dyn FnOnce() -> InstResult + Send>;
    let mut jobs: Vec<JobFn> = vec![];
    use IOp::*;
    let prefixes: Vec<(&'static str, Vec<IOp>)> = vec![
        ("empty", vec![]),
        ("two entries", vec![Insert(0, 1), Insert(1, 0)]),
        ("clone of three entries", vec![Insert(0, 1), Insert(1, 0), Insert(2, 1), CloneSwap]),
        ("tombstone", vec![Insert(0, 0), Insert(1, 1), Remove(0), Insert(2, 0)]),
    ];
    macro_rules! add {
        ($t:ty) => {
            for hk in [HK::Const, HK::Spread] {
                if !<$t as Inst>::COUNTS_HASHES && hk == HK::Const {
                    continue;
                }
                for (label, prefix) in &prefixes {
                    for (limit, cap) in [(usize::MAX, None), (0usize, Some(3usize))] {
                        let job = Job { hk, limit, cap, depth, prefix: prefix.clone(), second_after: None, label, alpha: None, preload: 0, churn: None, id: jobs.len() as u32, mode: 0, skips: skips.clone() };
                        jobs.push(Box::new(move || run_job::<$t>(job)));
                    }
                }
                // ladder: n entries, then every operation, and every operation after a clone / clone_from
                if <$t as Inst>::MANY_KEYS {
                    for n in 4..=ladder {
                        let prefix: Vec<IOp> = (0..n as u32).map(|k| Insert(k, (k % 2) as usize)).collect();
                        let job = Job {
                            hk,
                            limit: usize::MAX,
                            cap: None,
                            depth: 2,
                            prefix,
                            second_after: Some(vec![CloneSwap, CloneFrom(0), CloneFrom(1), CloneFrom(2), CloneFrom(3)]),
                            label: "ladder",
                            alpha: None,
                            preload: 0,
                            churn: None,
                            id: jobs.len() as u32,
                            mode: 0,
                            skips: skips.clone(),
                        };
                        jobs.push(Box::new(move || run_job::<$t>(job)));
                    }
                }
            }
        };
    }
    add!(U64View);
    add!(StringVec);
    add!(ReseedView);
    add!(PathKeys);
    add!(TrackedKeyView);
    add!(PlainKeyTracked);
    add!(FatTracked);
    add!(Aligned);
    add!(UnitVal);
    add!(UnitKey);
    add!(DefaultHasherView);
    // deep jobs: no state is ever merged here, so state the canonical key of the main engine
    // cannot see (a cached pointer, a hint, a flag) is carried along every history
    let core: Vec<IOp> = vec![
        Insert(0, 0), Insert(1, 0), Insert(2, 0), Insert(1, 1), Remove(0), Remove(1), Remove(2), Get(0), Get(1), Get(2),
        Touch(2), Mutate(1, 1), Mutate(0, 0), TryInsert(2, 0), Peek(1), RemoveLru, GetLru, SetMax(2), SetMax(4), ShrinkToFit,
        Drain(0), Clear,
    ];
    macro_rules! add_deep {
        ($t:ty) => {
            for hk in [HK::Const, HK::Spread] {
                for (limit, cap) in [(usize::MAX, None), (0usize, Some(3usize))] {
                    // one job per first operation, for parallelism
                    for first in &core {
                        let job = Job { hk, limit, cap, depth: deep - 1, prefix: vec![*first], second_after: None, label: "first operation", alpha: Some(core.clone()), preload: 0, churn: None, id: jobs.len() as u32, mode: 0, skips: skips.clone() };
                        jobs.push(Box::new(move || run_job::<$t>(job)));
                    }
                }
            }
        };
    }
    if deep > 1 {
        add_deep!(PlainKeyTracked);
        add_deep!(U64View);
        // the same core alphabet, 3 (thorough 4) operations deep, from larger fills
        for hk in [HK::Const, HK::Spread] {
            for n in [17usize, 33, 70] {
                for (limit, cap) in [(usize::MAX, None), (0usize, Some(3usize))] {
                    let prefix: Vec<IOp> = (0..n as u32).map(|k| Insert(k, (k % 2) as usize)).collect();
                    let mut alpha = core.clone();
                    alpha.extend([Insert(n as u32, 0), Remove(n as u32 - 1), Get(n as u32 / 2), Reserve, Retain(1)]);
                    // one growing mutate that evicts most of the cache (LRU, middle and MRU entry)
                    alpha.extend([Mutate(0, 2), Mutate(n as u32 / 2, 2), Mutate(n as u32 - 1, 2)]);
                    let job = Job { hk, limit, cap, depth: deep - 2, prefix, second_after: None, label: "filled", alpha: Some(alpha), preload: 0, churn: None, id: jobs.len() as u32, mode: 0, skips: skips.clone() };
                    jobs.push(Box::new(move || run_job::<U64View>(job)));
                }
            }
        }
    }
    jobs.reverse();
    // very large fills (thresholds at powers of two up to 2^16 and beyond): every operation once
    for hk in [HK::Spread, HK::Sip] {
        for n in huge.iter().copied() {
            // the longest jobs are started first (the queue is popped from the end)
            let job = Job { hk, limit: usize::MAX, cap: None, depth: 1, prefix: vec![], second_after: None, label: "huge", alpha: None, preload: n, churn: None, id: jobs.len() as u32, mode: 0, skips: skips.clone() };
            jobs.push(Box::new(move || run_job::<U64View>(job)));
        }
    }
    // long periodic schedules: every pattern of period 1 and 2 over twelve operations and of
    // period 3 over six of them, repeated for more than 2^16 steps (a counter that wraps, a
    // slow drift of the accounting, capacity creep, tombstone build-up), every step compared
    // with the reference; then each of five closing operations with the full state check
    if deep > 1 {
        let steps = if deep > 5 { 300_000 } else { 70_000 };
        let calpha = [Insert(0, 0), Insert(1, 1), Insert(2, 0), Remove(0), Get(1), Mutate(1, 0), Mutate(1, 1), Touch(2), SetMax(2), SetMax(4), TryInsert(2, 0), RemoveLru];
        let mut pats: Vec<Vec<IOp>> = vec![];
        for a in calpha {
            pats.push(vec![a]);
            for b in calpha {
                pats.push(vec![a, b]);
            }
        }
        for a in &calpha[..6] {
            for b in &calpha[..6] {
                for c in &calpha[..6] {
                    pats.push(vec![*a, *b, *c]);
                }
            }
        }
        let finals = vec![ReadAll, SetMax(0), ShrinkToFit, Insert(0, 1), Clear];
        for (i, pat) in pats.into_iter().enumerate() {
            let hk = if i % 2 == 0 { HK::Spread } else { HK::Const };
            let job = Job { hk, limit: usize::MAX, cap: None, depth: 1, prefix: vec![], second_after: None, label: "churn", alpha: Some(finals.clone()), preload: 0, churn: Some((pat, steps)), id: jobs.len() as u32, mode: 0, skips: skips.clone() };
            jobs.push(Box::new(move || run_job::<U64View>(job)));
        }
    }
    // more than 2^16 entries that all share one control tag (the top seven bits of every hash are
    // zero under this hasher): a per-tag or per-group counter of 16 bits saturates or wraps
    if huge.iter().any(|n| *n >= 70_000) {
        let job = Job { hk: HK::SameTag, limit: usize::MAX, cap: None, depth: 1, prefix: vec![], second_after: None, label: "huge", alpha: None, preload: 70_000, churn: None, id: jobs.len() as u32, mode: 0, skips: skips.clone() };
        jobs.push(Box::new(move || run_job::<U64View>(job)));
    }
    run_jobs(jobs, threads)
}

fn run_jobs(jobs: Vec<Box<dyn FnOnce() -> InstResult + Send>>, threads: usize) -> InstResult {
    let queue = std::sync::Mutex::new(jobs);
    let total = std::sync::Mutex::new(InstResult::default());
    std::thread::scope(|s| {
        for _ in 0..threads.max(1) {
            s.spawn(|| loop {
                let j = queue.lock().unwrap().pop();
                let Some(j) = j else { break };
                let r = j();
                crate::contain::idle();
                let mut t = total.lock().unwrap();
                t.sequences += r.sequences;
                t.steps += r.steps;
                t.checks += r.checks;
                t.faults += r.faults;
                t.outcomes.extend(r.outcomes);
                t.violations.extend(r.violations);
            });
        }
    });
    let mut t = total.into_inner().unwrap();
    t.violations.sort_by(|a, b| a.detail.len().cmp(&b.detail.len()).then(a.detail.cmp(&b.detail)));
    t
}

// ---------------------------------------------------------------------------
// C16 on the other instantiations: a panic injected at every callback index
// ---------------------------------------------------------------------------

const FAULT_KINDS: [Cb; 9] = [Cb::HashK, Cb::HashQ, Cb::Eq, Cb::CloneK, Cb::CloneV, Cb::HeapK, Cb::HeapV, Cb::MutPre, Cb::Pred];

fn build_run<T: Inst>(job: &Job, sm: [usize; 5], seq: &[IOp]) -> Run<T> {
    let mut run: Run<T> = Run::new(if job.limit == 0 { usize::MAX } else { job.limit }, job.cap, job.hk, sm);
    run.preload(job.preload);
    if let Some((pat, n)) = &job.churn {
        let _ = run.churn(pat, *n);
    }
    for op in &job.prefix {
        let _ = run.step(*op);
    }
    if job.limit == 0 {
        let l = if job.prefix.is_empty() { sm[1] + sm[2] } else { run.m.cur() };
        run.m.limit = l;
        run.c.set_max_size(l);
    }
    for op in seq {
        let _ = run.step(*op);
    }
    run
}

/// what C16 promises about the state after a panic; None if the cache must not be touched any more
fn post_fault<T: Inst>(c: &LruCache<T::K, T::V, T::S>, problems: &mut Vec<(&'static str, String)>) -> Option<Vec<(u32, u32)>> {
    let d = c.verif_dump();
    let w = match walk(&d) {
        Ok(w) => w,
        Err(why) => {
            problems.push(("postfault.structure", format!("the list/table structure is incoherent: {why}")));
            return None;
        }
    };
    if w.recorded_sum != d.current_size {
        problems.push(("C16.recorded-sum", format!("current_size() = {} but the sizes recorded for the remaining entries sum to {}", d.current_size, w.recorded_sum)));
    }
    let n = d.items;
    let fwd: Vec<(u32, u32)> = quiet(|| c.iter().take(n + 2).map(|(k, v)| (T::kid(k), T::vtag(v))).collect());
    let mut rev: Vec<(u32, u32)> = quiet(|| c.iter().rev().take(n + 2).map(|(k, v)| (T::kid(k), T::vtag(v))).collect());
    rev.reverse();
    if fwd != rev || c.len() != fwd.len() {
        problems.push(("postfault.mirror", format!("forward traversal {fwd:?}, reversed reverse traversal {rev:?}, len() = {}", c.len())));
    }
    let mut ids: Vec<u32> = (0..T::NKEYS).collect();
    for x in &fwd {
        if !ids.contains(&x.0) {
            ids.push(x.0);
        }
    }
    for id in ids {
        let held: Vec<&(u32, u32)> = fwd.iter().filter(|x| x.0 == id).collect();
        if held.len() > 1 {
            problems.push(("postfault.duplicate", format!("key {id} is held {} times", held.len())));
        }
        let got = quiet(|| T::with_q(id, |q| c.peek_entry(q).map(|(k, v)| (T::kid(k), T::vtag(v)))));
        if got.as_ref() != held.first().copied() {
            problems.push(("postfault.lookup", format!("lookup of key {id} finds {got:?} but traversal holds {:?}", held.first())));
        }
    }
    Some(fwd)
}

/// Further use after a fault: the table is rebuilt first (a fault may leave
/// scratch state behind that only the next rebuild consumes), and the whole
/// post-fault oracle - including lookups against the traversal - is repeated
/// after every step.
const BATTERY: [IOp; 14] = [
    IOp::Reserve,
    IOp::Get(0),
    IOp::ShrinkToFit,
    IOp::Insert(1, 0),
    IOp::Touch(2),
    IOp::Mutate(0, 1),
    IOp::Retain(1),
    IOp::Insert(0, 1),
    IOp::RemoveLru,
    IOp::Insert(2, 0),
    IOp::SetMax(1),
    IOp::CloneSwap,
    IOp::Get(0),
    IOp::Clear,
];

fn fault_seq<T: Inst>(job: &Job, sm: [usize; 5], seq: &[IOp], out: &mut InstResult) {
    let (before, last) = seq.split_at(seq.len() - 1);
    let last = last[0];
    // dry run: how often is each kind of callback reached?
    reg_reset();
    set_fuel(None);
    if announce(job, T::NAME, seq, None).is_some() {
        return;
    }
    let dry = std::panic::catch_unwind(std::panic::AssertUnwindSafe(|| {
        let mut run = build_run::<T>(job, sm, before);
        let c0 = counts();
        let _ = run.step(last);
        let c1 = counts();
        (c0, c1)
    }));
    let _ = take_reg_violations();
    let Ok((c0, c1)) = dry else { return };
    for kind in FAULT_KINDS {
        let cnt = c1[kind as usize] - c0[kind as usize];
        for idx in 0..cnt.min(if job.label == "ladder" { 400 } else { 48 }) {
            reg_reset();
            set_fuel(None);
            if let Some(why) = announce(job, T::NAME, seq, Some((kind, idx))) {
                out.violations.push(Violation {
                    props: p(16),
                    rule: "postfault.crash",
                    detail: format!("{}: {why}", describe_raw(job.id as u64, &record(job, T::NAME, seq, Some((kind, idx)))).join("; ")),
                });
                continue;
            }
            let mut problems: Vec<(&'static str, String)> = vec![];
            let res = std::panic::catch_unwind(std::panic::AssertUnwindSafe(|| {
                let mut run = build_run::<T>(job, sm, before);
                let pre: Vec<(u32, u32)> = quiet(|| run.c.iter().map(|(k, v)| (T::kid(k), T::vtag(v))).collect());
                let pre_max = run.c.max_size();
                set_fuel(Some((kind, idx)));
                let stepped = std::panic::catch_unwind(std::panic::AssertUnwindSafe(|| {
                    let _ = run.step(last);
                }));
                let fired = fuel().is_none();
                set_fuel(None);
                (run, pre, pre_max, stepped, fired)
            }));
            out.checks += 1;
            out.steps += seq.len() as u64;
            let (mut run, pre, pre_max, stepped, fired) = match res {
                Ok(x) => x,
                Err(_) => continue, // the prefix itself panicked: another sequence's finding
            };
            let payload = match stepped {
                Ok(()) => {
                    // the index was beyond what the operation itself reaches (harness-side calls were counted)
                    drop(run);
                    let _ = take_reg_violations();
                    continue;
                }
                Err(e) => e,
            };
            out.outcomes.insert("inst:fault-injected");
            out.faults += 1;
            if !fired || payload.downcast_ref::<InjectedPanic>().is_none() {
                let msg = payload.downcast_ref::<String>().cloned().or_else(|| payload.downcast_ref::<&str>().map(|s| s.to_string())).unwrap_or_else(|| "<other>".into());
                problems.push(("postfault.foreign-panic", format!("a panic other than the injected one: {msg}")));
            }
            let target_survives = run.pending.is_some();
            if let Some(target) = run.pending.take() {
                // a clone_from was interrupted: its half-built target survives the unwind
                // (as it does in a program that catches the panic) and is the cache that is
                // used from here on; the source is judged first and dropped
                out.outcomes.insert("inst:fault-in-clone_from-target-survives");
                let src = std::mem::replace(&mut run.c, target);
                let mut sp: Vec<(&'static str, String)> = vec![];
                match post_fault::<T>(&src, &mut sp) {
                    None => std::mem::forget(src),
                    Some(_) => drop(src),
                }
                for (rule, why) in sp {
                    problems.push((rule, format!("source of the interrupted clone_from: {why}")));
                }
            }
            let after = post_fault::<T>(&run.c, &mut problems);
            match after {
                None => std::mem::forget(run),
                Some(fwd) => {
                    // "retain ... never change[s] the relative order of the entries that remain", and no
                    // access promotes any entry but its own: an operation that is cut short by a panic
                    // has not accessed anything else either
                    if !target_survives {
                        let own_key: Option<u32> = match last {
                            IOp::Insert(k, _) | IOp::TryInsert(k, _) | IOp::Get(k) | IOp::GetEntry(k) | IOp::Touch(k) | IOp::Mutate(k, _) => Some(k),
                            IOp::GetLru => pre.first().map(|x| x.0),
                            _ => None,
                        };
                        let a: Vec<u32> = pre.iter().map(|x| x.0).filter(|k| Some(*k) != own_key && fwd.iter().any(|y| y.0 == *k)).collect();
                        let b: Vec<u32> = fwd.iter().map(|x| x.0).filter(|k| Some(*k) != own_key && pre.iter().any(|y| y.0 == *k)).collect();
                        if a != b {
                            problems.push(("C05.order-after-panic", format!("the entries that remain changed their relative order: keys LRU to MRU before {:?}, after the caught panic {:?}", pre.iter().map(|x| x.0).collect::<Vec<_>>(), fwd.iter().map(|x| x.0).collect::<Vec<_>>())));
                        }
                    }
                    if matches!(kind, Cb::MutPre | Cb::Pred) {
                        if run.c.current_size() > run.c.max_size() {
                            problems.push(("C16.closure-bound", format!("current_size() = {} > max_size() = {} after a panic in the closure", run.c.current_size(), run.c.max_size())));
                        }
                        // nothing but what the predicate already rejected is lost
                        let rejected: Vec<u32> = match last {
                            IOp::Retain(i) if i < 3 => {
                                let masks = [0b101u32, 0b010, 0];
                                pre.iter().take(idx as usize).filter(|x| masks[i as usize].checked_shr(x.0).unwrap_or(0) & 1 == 0).map(|x| x.0).collect()
                            }
                            IOp::Retain(_) => pre.iter().take(idx as usize).skip(1).map(|x| x.0).collect(),
                            _ => vec![],
                        };
                        for x in &pre {
                            if !fwd.iter().any(|y| y.0 == x.0) && !rejected.contains(&x.0) {
                                problems.push(("C16.closure-lost", format!("key {} was lost although the predicate had not rejected it (held before: {pre:?}, after: {fwd:?})", x.0)));
                            }
                        }
                        let _ = pre_max;
                    }
                    // further use, then drop
                    let mut alive = true;
                    for op in BATTERY {
                        let op = match op {
                            IOp::Get(k) => IOp::Get(k % T::NKEYS),
                            IOp::Insert(k, s2) => IOp::Insert(k % T::NKEYS, s2.min(T::VSEL - 1)),
                            IOp::Touch(k) => IOp::Touch(k % T::NKEYS),
                            IOp::Mutate(k, s2) => IOp::Mutate(k % T::NKEYS, s2.min(T::VSEL - 1)),
                            o => o,
                        };
                        let r = std::panic::catch_unwind(std::panic::AssertUnwindSafe(|| {
                            let _ = run.step(op);
                        }));
                        if r.is_err() {
                            problems.push(("postfault.use", format!("{op:?} panicked on the cache that survived the fault")));
                        }
                        let mut after_use: Vec<(&'static str, String)> = vec![];
                        if post_fault::<T>(&run.c, &mut after_use).is_none() {
                            alive = false;
                        }
                        if let Some((rule, why)) = after_use.into_iter().next() {
                            problems.push(("postfault.use", format!("after {op:?} on the cache that survived the fault: {rule}: {why}")));
                            break;
                        }
                        if r.is_err() {
                            break;
                        }
                    }
                    if alive {
                        drop(run);
                    } else {
                        std::mem::forget(run);
                    }
                }
            }
            for r in take_reg_violations() {
                problems.push(("postfault.registry", r));
            }
            for (rule, detail) in problems {
                if out.violations.len() < 64 {
                    out.violations.push(Violation {
                        props: if rule == "C05.order-after-panic" { p(5) } else { p(16) },
                        rule,
                        detail: format!(
                            "{} [{}, {}, capacity {:?}]: after {}{:?}, then {:?} with a panic in invocation #{} of {:?}: {}",
                            T::NAME,
                            job.hk.name(),
                            if job.limit == usize::MAX { "limit usize::MAX" } else { "limit set to exactly the current size after the prefix (empty prefix: one small + one large entry)" },
                            job.cap,
                            if job.prefix.is_empty() { String::new() } else { format!("prefix {} = {:?} then ", job.label, job.prefix) },
                            before,
                            last,
                            idx,
                            kind,
                            detail
                        ),
                    });
                }
            }
        }
    }
}

fn fault_job<T: Inst>(job: Job) -> InstResult {
    let mut out = InstResult::default();
    let k0 = T::key(0);
    let small = esize::<T>(&k0, &T::val(0, 0));
    let large = esize::<T>(&k0, &T::val(0, T::VSEL - 1));
    let sm = [0, small, large, 2 * large, usize::MAX];
    let alpha = job.alpha.clone().unwrap_or_else(alphabet::<T>);
    let job = Job {
        prefix: job
            .prefix
            .iter()
            .map(|op| match *op {
                IOp::Insert(k, s) if T::NKEYS < 3 => IOp::Insert(k % T::NKEYS, s.min(T::VSEL - 1)),
                IOp::Insert(k, s) => IOp::Insert(k, s.min(T::VSEL - 1)),
                IOp::Remove(k) if T::NKEYS < 3 => IOp::Remove(k % T::NKEYS),
                o => o,
            })
            .collect(),
        ..job
    };
    let mut seq: Vec<IOp> = vec![];
    fn rec<T: Inst>(job: &Job, sm: [usize; 5], alpha: &[IOp], seq: &mut Vec<IOp>, out: &mut InstResult) {
        if seq.len() == job.depth {
            return;
        }
        for op in alpha {
            if matches!(op, IOp::DrainForget(_)) {
                continue;
            }
            seq.push(*op);
            out.sequences += 1;
            fault_seq::<T>(job, sm, seq, out);
            if out.violations.len() < 64 && !terminal_only(*op) {
                rec::<T>(job, sm, alpha, seq, out);
            }
            seq.pop();
        }
    }
    rec::<T>(&job, sm, &alpha, &mut seq, &mut out);
    set_fuel(None);
    out
}

/// C16: every instantiation x hasher x prefix x {unbounded, exactly full}, every
/// sequence of <= depth operations, the last one with a panic at every callback index.
pub fn explore_faults(depth: usize, ladder_sizes: &[usize], threads: usize, skips: &[(String, String)]) -> InstResult {
    let skips = std::sync::Arc::new(skips.to_vec());
    type JobFn = Box<dyn FnOnce() -> InstResult + Send>;
    let mut jobs: Vec<JobFn> = vec![];
    use IOp::*;
    let prefixes: Vec<(&'static str, Vec<IOp>)> = vec![
        ("empty", vec![]),
        ("two entries", vec![Insert(0, 1), Insert(1, 0)]),
        ("clone of three entries", vec![Insert(0, 1), Insert(1, 0), Insert(2, 1), CloneSwap]),
        ("tombstone", vec![Insert(0, 0), Insert(1, 1), Remove(0), Insert(2, 0)]),
        ("full table of 3", vec![Insert(0, 0), Insert(1, 0), Insert(2, 0)]),
    ];
    macro_rules! add {
        ($t:ty) => {
            for hk in [HK::Const, HK::Spread] {
                if !<$t as Inst>::COUNTS_HASHES {
                    continue;
                }
                for (label, prefix) in &prefixes {
                    for (limit, cap) in [(usize::MAX, None), (0usize, Some(3usize))] {
                        let job = Job { hk, limit, cap, depth, prefix: prefix.clone(), second_after: None, label, alpha: None, preload: 0, churn: None, id: jobs.len() as u32, mode: 1, skips: skips.clone() };
                        jobs.push(Box::new(move || fault_job::<$t>(job)));
                    }
                }
            }
        };
    }
    add!(U64View);
    add!(StringVec);
    add!(ReseedView);
    add!(PathKeys);
    add!(TrackedKeyView);
    add!(PlainKeyTracked);
    add!(FatTracked);
    add!(Aligned);
    add!(UnitVal);
    add!(UnitKey);
    // ladder: larger fills, every operation that rebuilds or walks the whole table, every callback index
    let walkers: Vec<IOp> = vec![Reserve, TryReserve, ShrinkToFit, ShrinkTo0, Insert(250, 0), CloneSwap, CloneFrom(0), CloneFrom(3), Retain(0), Retain(3), SetMax(2), Mutate(0, 1), Clear, Drain(2)];
    macro_rules! add_ladder {
        ($t:ty) => {
            for hk in [HK::Const, HK::Spread] {
                for n in ladder_sizes.iter().copied() {
                    let prefix: Vec<IOp> = (0..n as u32).map(|k| Insert(k, (k % 2) as usize)).collect();
                    let job = Job { hk, limit: usize::MAX, cap: None, depth: 1, prefix, second_after: None, label: "ladder", alpha: Some(walkers.clone()), preload: 0, churn: None, id: jobs.len() as u32, mode: 1, skips: skips.clone() };
                    jobs.push(Box::new(move || fault_job::<$t>(job)));
                }
            }
        };
    }
    add_ladder!(TrackedKeyView);
    add_ladder!(U64View);
    jobs.reverse();
    run_jobs(jobs, threads)
}
