//! Verification harness for lru-mem: explicit-state model checking of the
//! real `LruCache` (see /verif/DESIGN.md).

pub mod check;
pub mod explore;
pub mod ops;
pub mod refmodel;
pub mod state;
pub mod statecheck;
pub mod types;
pub mod plan;
pub mod faults;
pub mod seeds;
pub mod trap;
pub mod strmap;
pub mod contain;
pub mod cap13;
pub mod typevar;
pub mod instvar;
