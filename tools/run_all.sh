#!/bin/bash
# Runs every registered check (tier from $1, default quick) and validates the evidence files.
cd "$(dirname "$(readlink -f "$0")")/.."
TIER=${1:-quick}
RC=0
for p in C01 C02 C03 C04 C05 C06 C07 C08 C09 C10 C11 C12 C13 C14 C15 C16 C17 C18 C19 C20; do
  T0=$(date +%s.%N)
  OUT=$(./check $p --tier $TIER 2>&1); E=$?
  T1=$(date +%s.%N)
  printf "%s exit=%d %.0fs  %s\n" $p $E $(echo "$T1 - $T0" | bc) "$(echo "$OUT" | grep -E "^$p:|^C18:" | cut -c1-150)"
  echo "$OUT" | grep -E "^VIOLATION|^KNOWN-FINDING|MACHINERY" | cut -c1-160
  [ $E -ne 0 ] && RC=1
done
python3-vt - <<'PY'
import json,jsonschema,glob,sys
sch=json.load(open('/root/.vp/EVIDENCE.schema.json'))
bad=0
for f in sorted(glob.glob('evidence/C*.json')):
    try:
        jsonschema.validate(json.load(open(f)),sch)
    except Exception as e:
        bad=1; print("INVALID",f,str(e)[:200])
m=json.load(open('MANIFEST.json'))
jsonschema.validate(m,json.load(open('/root/.vp/MANIFEST.schema.json')))
print("evidence + manifest schema:", "FAILED" if bad else "ok")
PY
exit $RC
