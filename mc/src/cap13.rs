//! C13: parametric families and allocator-failure enumeration
//! (DESIGN.md 3.5 "Parametric families", C13).

use crate::check::*;
use crate::explore::VRecLite;
use crate::faults::ExtraOut;
use crate::ops::*;

use crate::trap;
use crate::types::*;
use lru_mem::LruCache;

pub struct FamOut {
    pub evaluations: u64,
    pub cases: u64,
    pub viol: Vec<(&'static str, String)>,
    pub samples: Vec<String>,
}

fn hk_max_n(hk: HK, n_max: usize) -> usize {
    match hk {
        // every lookup compares with every colliding key: keep quadratic cost bounded
        HK::Const | HK::SamePos => n_max.min(160),
        _ => n_max,
    }
}

/// with_capacity(n) then n fresh insertions, for every n <= n_max: the
/// capacity (and the table) must not change.
pub fn with_capacity_family(n_max: usize) -> FamOut {
    let mut out = FamOut { evaluations: 0, cases: 0, viol: vec![], samples: vec![] };
    for hk in ALL_HK {
        for n in 0..=hk_max_n(hk, n_max) {
            reg_reset();
            let mut c: Cache = LruCache::with_capacity_and_hasher(usize::MAX, n, TBuild { kind: hk });
            let cap0 = c.capacity();
            let b0 = c.verif_dump().buckets;
            out.cases += 1;
            if cap0 < n {
                out.viol.push(("C13.with_capacity", format!("with_capacity_and_hasher(_, {n}, {}) has capacity {cap0}", hk.name())));
            }
            for i in 0..n {
                let _ = c.insert(TKey::new(1000 + i as u32, i % 2), TVal::new(i % 3));
                out.evaluations += 1;
                if c.capacity() != cap0 || c.verif_dump().buckets != b0 {
                    out.viol.push((
                        "C13.with_capacity",
                        format!(
                            "LruCache::with_capacity_and_hasher(usize::MAX, {n}, {}): capacity changed from {cap0} to {} at fresh insertion #{} of {n}",
                            hk.name(),
                            c.capacity(),
                            i + 1
                        ),
                    ));
                    break;
                }
            }
            if c.len() != n {
                out.viol.push(("C13.with_capacity", format!("{} fresh insertions left len() = {}", n, c.len())));
            }
            if out.viol.len() > 8 {
                return out;
            }
        }
    }
    // the same through the default-hasher constructor
    for n in 0..=n_max {
        reg_reset();
        let mut c: LruCache<TKey, TVal> = LruCache::with_capacity(usize::MAX, n);
        let cap0 = c.capacity();
        out.cases += 1;
        for i in 0..n {
            let _ = c.insert(TKey::new(1000 + i as u32, 0), TVal::new(0));
            out.evaluations += 1;
            if c.capacity() != cap0 {
                out.viol.push((
                    "C13.with_capacity",
                    format!("LruCache::with_capacity(usize::MAX, {n}) (default hasher): capacity changed from {cap0} to {} at fresh insertion #{} of {n}", c.capacity(), i + 1),
                ));
                break;
            }
        }
        if out.viol.len() > 8 {
            return out;
        }
    }
    // large tables: the smallest and the largest n of every bucket class up to 2^kmax buckets,
    // requested at construction or by reserve on an empty cache
    let kmax = if n_max > 1000 { 18 } else { 14 };
    for hk in [HK::Spread, HK::Sip] {
        for k in 5..=kmax {
            let b: usize = 1 << k;
            for n in [b / 2 * 7 / 8 + 1, b * 7 / 8] {
                for by_reserve in [false, true] {
                    reg_reset();
                    let mut c: Cache = if by_reserve {
                        let mut c: Cache = LruCache::with_hasher(usize::MAX, TBuild { kind: hk });
                        c.reserve(n);
                        c
                    } else {
                        LruCache::with_capacity_and_hasher(usize::MAX, n, TBuild { kind: hk })
                    };
                    let cap0 = c.capacity();
                    out.cases += 1;
                    if cap0 < n {
                        out.viol.push(("C13.with_capacity", format!("a cache asked to hold {n} entries ({}) has capacity {cap0}", if by_reserve { "reserve" } else { "with_capacity" })));
                    }
                    for i in 0..n {
                        let _ = c.insert(TKey::new(1000 + i as u32, 0), TVal::new(0));
                        out.evaluations += 1;
                        if c.capacity() != cap0 {
                            out.viol.push((
                                "C13.with_capacity",
                                format!(
                                    "{} for {n} entries ({}): capacity changed from {cap0} to {} at fresh insertion #{} of {n}",
                                    if by_reserve { "LruCache::with_hasher + reserve" } else { "LruCache::with_capacity_and_hasher" },
                                    hk.name(),
                                    c.capacity(),
                                    i + 1
                                ),
                            ));
                            break;
                        }
                    }
                    if out.viol.len() > 8 {
                        return out;
                    }
                }
            }
        }
    }
    out.samples.push(format!("with_capacity_and_hasher(usize::MAX, n, H) then n fresh inserts, n = 0..={n_max} (0..=160 for Const/SamePos), H in 5 hasher kinds + default hasher; smallest and largest n of every bucket class from 32 to 2^{kmax} buckets, by with_capacity and by reserve"));
    out
}

#[derive(Clone, Copy, Debug)]
pub enum ChurnPos {
    /// insert a fresh key into a full cache: the LRU entry is evicted
    Evict,
    /// remove the MRU entry, insert a fresh key
    Mru,
    /// remove an entry from the middle of the recency order, insert a fresh key
    Middle,
}

/// Churn at constant length L for every L <= l_max and every removal
/// position, 10 x capacity steps: capacity stays below max(4 x peak len, 16).
pub fn churn_family(l_max: usize) -> FamOut {
    let mut out = FamOut { evaluations: 0, cases: 0, viol: vec![], samples: vec![] };
    let e = entry_overhead();
    for hk in ALL_HK {
        for l in 1..=l_max {
            for pos in [ChurnPos::Evict, ChurnPos::Mru, ChurnPos::Middle] {
                reg_reset();
                // every entry has size e + 1 (key heap 1, value heap 0): limit admits exactly l
                let limit = l * (e + 1);
                let mut c: Cache = LruCache::with_hasher(limit, TBuild { kind: hk });
                let mut next = 0u32;
                let mut order: std::collections::VecDeque<u32> = Default::default();
                for _ in 0..l {
                    let _ = c.insert(TKey::new(next, 1), TVal::new(0));
                    order.push_back(next);
                    next += 1;
                }
                out.cases += 1;
                let bound = (4 * l).max(16);
                let steps = 10 * c.capacity().max(4);
                let mut peak_cap = c.capacity();
                for step in 0..steps {
                    match pos {
                        ChurnPos::Evict => {
                            order.pop_front();
                        }
                        ChurnPos::Mru => {
                            let _ = c.remove_mru();
                            order.pop_back();
                        }
                        ChurnPos::Middle => {
                            let id = order.remove(order.len() / 2).unwrap();
                            let _ = c.remove(&QKey(KeyId(id)));
                        }
                    }
                    let _ = c.insert(TKey::new(next, 1), TVal::new(0));
                    order.push_back(next);
                    next += 1;
                    out.evaluations += 1;
                    peak_cap = peak_cap.max(c.capacity());
                    if c.len() != l || c.capacity() >= bound {
                        out.viol.push((
                            "C13.churn-bounded",
                            format!(
                                "churn at constant length {l} ({:?}, hasher {}): after {} steps len() = {}, capacity() = {} (bound max(4 x peak len, 16) = {bound})",
                                pos,
                                hk.name(),
                                step + 1,
                                c.len(),
                                c.capacity()
                            ),
                        ));
                        break;
                    }
                }
                // contents survived the churn exactly
                let got: Vec<u32> = c.iter().map(|(k, _)| k.id.0).collect();
                let want: Vec<u32> = order.iter().copied().collect();
                if got != want && out.viol.is_empty() {
                    out.viol.push(("C13.transparent", format!("churn at length {l} ({:?}, {}): contents/order {:?} != {:?}", pos, hk.name(), got, want)));
                }
                if out.viol.len() > 8 {
                    return out;
                }
                if l == l_max && matches!(pos, ChurnPos::Middle) {
                    out.samples.push(format!("churn L={l} {:?} {}: {} steps, peak capacity {} < {}", pos, hk.name(), steps, peak_cap, bound));
                }
            }
        }
    }
    out
}

/// Per-state hook: for every try_reserve argument, every allocation made by
/// try_reserve fails once; the call must return Err and leave the complete
/// canonical state unchanged.
pub fn alloc_failure_scan(ctx: &Ctx, cfg: &Config, hist: &[Op], st: &mut Stats) -> ExtraOut {
    let u = ctx.u;
    let mut out = ExtraOut { viol: vec![], novel: vec![] };
    for (ai, &add) in u.reserve_args.iter().enumerate() {
        let op = Op::TryReserve { a: ai as u8 };
        // dry run: how many allocations does the call make?
        reg_reset();
        let mut ex = rebuild(u, cfg, hist);
        let a0 = trap::alloc_count();
        let r = ex.c().try_reserve(add);
        let a1 = trap::alloc_count();
        let dry_ok = r.is_ok();
        drop(ex);
        let n_allocs = a1 - a0;
        st.executions += 1;
        for fail_at in 0..n_allocs {
            reg_reset();
            let mut ex = rebuild(u, cfg, hist);
            let pre = match snapshot(ex.cr(), cfg.hk) {
                Ok(s) => s,
                Err(_) => break,
            };
            let _ = take_reg_violations();
            trap::fail_nth_alloc(Some(fail_at));
            let r = ex.c().try_reserve(add);
            trap::fail_nth_alloc(None);
            st.executions += 1;
            st.transitions += 1;
            st.rule("C13.alloc-failure");
            st.class("reserve:allocator-refused");
            let mut why: Option<String> = None;
            match snapshot(ex.cr(), cfg.hk) {
                Err(e) => {
                    why = Some(format!("structure incoherent afterwards: {e}"));
                    std::mem::forget(ex.cache.take());
                }
                Ok(post) => {
                    if r.is_err() {
                        if post.key != pre.key {
                            why = Some("try_reserve returned Err but the cache changed".into());
                        }
                    } else if dry_ok {
                        // succeeded although an allocation was refused: only legal if it
                        // did not need that allocation; then the reserve bound must hold
                        if post.obs.cap < pre.obs.len + add {
                            why = Some(format!("returned Ok with capacity {} < len {} + {}", post.obs.cap, pre.obs.len, add));
                        }
                    }
                    if post.obs.entries.iter().map(|x| (x.kserial, x.vserial)).collect::<Vec<_>>() != pre.obs.entries.iter().map(|x| (x.kserial, x.vserial)).collect::<Vec<_>>() {
                        why = Some("contents or order changed".into());
                    }
                }
            }
            if let Some(w) = why {
                out.viol.push(VRecLite {
                    props: p(13),
                    rule: "C13.alloc-failure",
                    detail: format!("{} with allocation #{} of the call refused by the allocator: {}", op.show(u), fail_at, w),
                    op: Some(op),
                    extra_hist: vec![],
                });
            }
        }
    }
    out
}
