//! Independent cross-check of the explicit-state search: the same transition
//! function (replay a history on the real cache, apply one operation, take the
//! canonical key) wrapped in a stateright `Model`; stateright's own BFS and
//! its own deduplication must find exactly as many distinct states as the
//! hand-rolled explorer.
//!
//!   sr_crosscheck --nkeys 3 --hashers Const,Spread --caps none,3

use harness::check::*;
use harness::explore::*;
use harness::ops::*;
use harness::plan::closure_roots;
use harness::types::*;
use stateright::{Checker, Model, Property};
use std::collections::HashMap;
use std::hash::{Hash, Hasher};
use std::sync::Arc;

#[global_allocator]
static GLOBAL: harness::trap::TrapAlloc = harness::trap::TrapAlloc;

#[derive(Clone, Debug)]
struct St {
    root: usize,
    hist: Vec<Op>,
    key: Arc<[u8]>,
}
impl PartialEq for St {
    fn eq(&self, o: &St) -> bool {
        self.key == o.key
    }
}
impl Eq for St {}
impl Hash for St {
    fn hash<H: Hasher>(&self, h: &mut H) {
        self.key.hash(h)
    }
}

struct M {
    u: Universe,
    roots: Vec<Root>,
    alpha: Vec<Op>,
}

impl Model for M {
    type State = St;
    type Action = u16;
    fn init_states(&self) -> Vec<St> {
        self.roots
            .iter()
            .enumerate()
            .map(|(i, r)| {
                reg_reset();
                let ex = rebuild(&self.u, &r.cfg, &r.prefix);
                let s = snapshot(ex.cr(), r.cfg.hk).expect("root");
                St { root: i, hist: r.prefix.clone(), key: s.key.into() }
            })
            .collect()
    }
    fn actions(&self, _s: &St, a: &mut Vec<u16>) {
        a.extend(0..self.alpha.len() as u16);
    }
    fn next_state(&self, s: &St, a: u16) -> Option<St> {
        reg_reset();
        set_fuel(None);
        let cfg = self.roots[s.root].cfg;
        let mut ex = rebuild(&self.u, &cfg, &s.hist);
        let _ = apply_caught(&mut ex, self.alpha[a as usize]);
        let snap = snapshot(ex.cr(), cfg.hk).ok()?;
        if insane(&snap.obs, self.u.e).is_some() {
            return None;
        }
        let mut hist = s.hist.clone();
        hist.push(self.alpha[a as usize]);
        Some(St { root: s.root, hist, key: snap.key.into() })
    }
    fn properties(&self) -> Vec<Property<Self>> {
        vec![Property::always("bound", |m: &M, s: &St| {
            // re-observe: the memory bound as a stateright invariant
            reg_reset();
            let ex = rebuild(&m.u, &m.roots[s.root].cfg, &s.hist);
            ex.cr().current_size() <= ex.cr().max_size()
        })]
    }
}

fn main() {
    let args: Vec<String> = std::env::args().collect();
    let mut opt: HashMap<String, String> = HashMap::new();
    let mut i = 1;
    while i + 1 < args.len() {
        if let Some(k) = args[i].strip_prefix("--") {
            opt.insert(k.to_string(), args[i + 1].clone());
        }
        i += 2;
    }
    std::panic::set_hook(Box::new(|_| {}));
    let nkeys: u16 = opt.get("nkeys").and_then(|s| s.parse().ok()).unwrap_or(3);
    let hashers: Vec<HK> = opt.get("hashers").map(|s| s.split(',').map(|x| HK::parse(x).unwrap()).collect()).unwrap_or(vec![HK::Const, HK::Spread]);
    let caps: Vec<Option<u32>> = opt
        .get("caps")
        .map(|s| s.split(',').map(|x| if x == "none" { None } else { Some(x.parse().unwrap()) }).collect())
        .unwrap_or(vec![None, Some(3)]);
    let u = Universe::new(nkeys, false);
    let roots = closure_roots(&hashers, &caps, u.limits[u.limits.len() - 2]);
    let alpha = alphabet(&u);
    // hand-rolled explorer
    let t0 = std::time::Instant::now();
    let ctx = Ctx { u: &u, sel: 0, growth_bound: None, fault_props: 0, extra_ids: vec![], known_rules: vec![] };
    let mut ex = Explorer::new(&ctx, roots.clone(), alpha.clone());
    let r = ex.run(&ExploreOpts {
        threads: 16,
        max_depth: 64,
        max_states: 50_000_000,
        wall_cap_s: 3600.0,
        state_opts: None,
        transitions: true,
        max_violations: 10,
        extra: None,
        phase: 0,
        skips: vec![],
        depth_cap: None,
        heavy_depth_limit: None,
        owning_by_shape: false,
        distinct_roots: false,
    });
    let mine = r.states;
    let t1 = t0.elapsed().as_secs_f64();
    // stateright
    let t0 = std::time::Instant::now();
    let m = M { u: u.clone(), roots, alpha };
    let checker = m.checker().threads(16).spawn_bfs().join();
    let sr = checker.unique_state_count();
    let t2 = t0.elapsed().as_secs_f64();
    let ok = checker.discoveries().is_empty();
    println!(
        "crosscheck: hand-rolled explorer {} states (fixpoint {}, {:.1} s); stateright {} unique states ({:.1} s); invariant discoveries: {}",
        mine,
        r.fixpoint,
        t1,
        sr,
        t2,
        checker.discoveries().len()
    );
    if mine != sr || !r.fixpoint || !ok {
        println!("CROSSCHECK MISMATCH");
        std::process::exit(2);
    }
}
