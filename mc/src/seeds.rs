//! Seeded, depth-bounded exploration: deterministic scripts that build states
//! the small-universe closure cannot reach (tombstones, long lists, large
//! tables), each explored for all operation sequences up to a depth
//! (DESIGN.md 3.5).

use crate::check::*;
use crate::explore::Root;
use crate::ops::*;
use crate::state::observe;
use crate::types::*;

pub struct Seed {
    pub root: Root,
    pub alpha: Vec<Op>,
    pub depth: usize,
    pub extra_ids: Vec<u32>,
    pub len: usize,
    pub tombstones: usize,
    /// the script itself does not produce a coherent cache on this tree:
    /// (number of prefix operations that still did, what is wrong after the next)
    pub broken: Option<(usize, String)>,
}

const F0: u16 = 100;

fn filler_heap(i: usize) -> u32 {
    (i % 3) as u32
}

/// Builds `n` fillers, removes the given index range, scrambles recency by
/// touching every `touch_every`-th survivor, then sets a limit that leaves room
/// for exactly one more small entry.
fn script(n: usize, remove: std::ops::Range<usize>, touch_every: usize) -> (Vec<Op>, Vec<u32>) {
    script_ids(n, remove, touch_every, F0, 1)
}

/// filler i has key id base + stride * i
fn script_ids(n: usize, remove: std::ops::Range<usize>, touch_every: usize, base: u16, stride: u16) -> (Vec<Op>, Vec<u32>) {
    let id = |i: usize| base + stride * i as u16;
    let mut ops = vec![];
    for i in 0..n {
        ops.push(Op::InsertRaw { k: id(i), vheap: filler_heap(i) });
    }
    let mut removed = vec![];
    for i in remove.clone() {
        ops.push(Op::Remove { k: id(i), b: i % 2 == 0 });
        removed.push(id(i) as u32);
    }
    if touch_every > 0 {
        for i in (0..n).step_by(touch_every) {
            if !remove.contains(&i) {
                ops.push(Op::Get { k: id(i), b: i % 2 == 1 });
            }
        }
    }
    (ops, removed)
}

/// home bucket of a key id under a hasher kind in a table of `buckets`
fn home_bucket(hk: HK, id: u32, buckets: usize) -> usize {
    use std::hash::{BuildHasher, Hasher};
    let mut h = TBuild { kind: hk }.build_hasher();
    h.write_u32(id);
    (h.finish() as usize) & (buckets - 1)
}

fn broken_seed(cfg: Config, prefix: Vec<Op>, label: &str, at: usize, why: String) -> Seed {
    Seed {
        root: Root { cfg, prefix, label: format!("{label}: script does not complete coherently, {}", cfg.show()) },
        alpha: vec![],
        depth: 0,
        extra_ids: vec![],
        len: 0,
        tombstones: 0,
        broken: Some((at, why)),
    }
}

fn finish_seed(u: &Universe, cfg: Config, mut prefix: Vec<Op>, removed: Vec<u32>, depth: usize, label: &str, skip_reason: Option<String>) -> Seed {
    if let Some(why) = skip_reason {
        // building this seed killed or hung the engine in an earlier attempt
        let n = prefix.len();
        return broken_seed(cfg, prefix, label, n, why);
    }
    // the script must leave a coherent structure: validate before anything
    // walks the list
    reg_reset();
    crate::contain::mark(3, 0, &[], None);
    let ex = rebuild(u, &cfg, &prefix);
    if let Err(why) = crate::state::walk(&ex.cr().verif_dump()) {
        std::mem::forget(ex);
        // find the first operation of the script after which the walker fails
        reg_reset();
        let mut ex = Exec::new(u, &cfg);
        let mut at = prefix.len();
        for (i, op) in prefix.iter().enumerate() {
            let _ = apply_caught(&mut ex, *op);
            if crate::state::walk(&ex.cr().verif_dump()).is_err() {
                at = i;
                break;
            }
        }
        std::mem::forget(ex);
        crate::contain::idle();
        return broken_seed(cfg, prefix, label, at, why);
    }
    let obs = observe(ex.cr(), usize::MAX);
    let dump = ex.cr().verif_dump();
    crate::contain::idle();
    let tombstones = dump.ctrl.iter().filter(|c| **c == 0x80).count();
    drop(ex);
    let total = obs.sum(u.e);
    let n = obs.entries.len();
    let limit = total + u.e + 1;
    prefix.push(Op::SetMaxRaw { v: limit });
    let lru = obs.entries[0].id as u16;
    let mru = obs.entries[n - 1].id as u16;
    let mid = obs.entries[n / 2].id as u16;
    let mid2 = obs.entries[n / 3].id as u16;
    let gone = removed.first().copied().unwrap_or(59_999) as u16;
    // a key that is not held whose home bucket is EMPTY (never used) resp. a
    // tombstone: inserting it exercises "no growth budget left" resp. slot reuse
    let held: Vec<u32> = obs.ids();
    let mut fresh_empty: Option<u16> = None;
    let mut fresh_tomb: Option<u16> = None;
    if dump.alloc_size != 0 {
        for id in 3u32..100 {
            if held.contains(&id) {
                continue;
            }
            let c = dump.ctrl[home_bucket(cfg.hk, id, dump.buckets)];
            if c == 0xFF && fresh_empty.is_none() {
                fresh_empty = Some(id as u16);
            }
            if c == 0x80 && fresh_tomb.is_none() {
                fresh_tomb = Some(id as u16);
            }
        }
    }
    let mut alpha = vec![
        Op::Insert { k: 0, h: 0 },
        Op::Insert { k: 1, h: 2 },
        Op::Insert { k: 2, h: 1 },
        Op::Insert { k: mid, h: 2 },
        Op::Insert { k: gone, h: 0 },
        Op::TryInsert { k: 0, h: 0 },
        Op::TryInsert { k: mid, h: 0 },
        Op::Get { k: 0, b: false },
        Op::Get { k: mid, b: true },
        Op::GetEntry { k: lru, b: false },
        Op::Touch { k: mid2, b: true },
        Op::Remove { k: 0, b: true },
        Op::Remove { k: mid, b: false },
        Op::RemoveEntry { k: mru, b: true },
        Op::Remove { k: gone, b: false },
        Op::Mutate { k: mid, h: 2, b: false },
        Op::Mutate { k: lru, h: 2, b: true },
        Op::Mutate { k: 0, h: 1, b: false },
        Op::Mutate { k: mid2, h: (u.vheaps.len() - 1) as u8, b: true },
        Op::Mutate { k: mid, h: (u.vheaps.len() - 2) as u8, b: true },
        Op::Mutate { k: mru, h: 0, b: false },
        Op::GetLru,
        Op::RemoveLru,
        Op::RemoveMru,
        Op::Clear,
        Op::SetMaxRaw { v: total },
        Op::SetMaxRaw { v: total - 1 },
        Op::SetMaxRaw { v: total.saturating_sub(3 * u.e + 2) },
        Op::SetMaxRaw { v: total / 2 },
        Op::SetMaxRaw { v: usize::MAX },
        Op::RetainMod { m: 3, r: 0 },
        Op::RetainMod { m: 2, r: 1 },
        Op::Reserve { a: 1 },
        Op::Reserve { a: 2 },
        Op::TryReserve { a: 2 },
        Op::TryReserve { a: 3 },
        Op::ShrinkTo { m: 0 },
        Op::ShrinkTo { m: 2 },
        Op::ShrinkToFit,
        Op::CloneSwap,
        Op::Drain { pat: 1 },
    ];
    if let Some(k) = fresh_empty {
        alpha.push(Op::Insert { k, h: 0 });
        alpha.push(Op::TryInsert { k, h: 1 });
    }
    if let Some(k) = fresh_tomb {
        alpha.push(Op::Insert { k, h: 1 });
    }
    alpha.dedup();
    Seed {
        root: Root { cfg, prefix, label: format!("{label}: {} entries, {} tombstones, {}", n, tombstones, cfg.show()) },
        alpha,
        depth,
        extra_ids: removed.into_iter().take(24).collect(),
        len: n,
        tombstones,
        broken: None,
    }
}

pub fn seeds(u: &Universe, thorough: bool, only_small: bool, skips: &[crate::contain::Skip]) -> Vec<Seed> {
    let mut v: Vec<Seed> = vec![];
    // a seed whose construction crashed / hung the engine before is not built again
    let skip_for = |idx: usize| -> Option<String> {
        skips.iter().find(|s| s.kind == 3 && s.phase == 10 + idx as u64).map(|s| s.reason.clone())
    };
    let d = if thorough { 4 } else { 3 };
    // tombstone seeds: a 32-bucket table filled to (or one short of) its
    // capacity of 28, then thinned out from the middle of the insertion order.
    // hashbrown (16-byte groups) leaves a tombstone only when the removed
    // slot sits in a run of >= 16 occupied slots, so this is the smallest
    // table in which tombstones exist. Every hasher kind x fill x remaining
    // length: with Const / SamePos all keys share one probe sequence, with
    // SameTag consecutive ids occupy consecutive buckets (fresh small ids then
    // probe never-used EMPTY buckets while growth_left is 0), Spread / Sip
    // scatter.
    for hk in ALL_HK {
        for (fill, live) in [(27usize, 15usize), (28, 15), (28, 11), (28, 7), (27, 6), (28, 4), (28, 2)] {
            let cfg = Config { hk, cap: Some(28), limit: usize::MAX };
            let from = live / 2;
            let (ops, removed) = script(fill, from..(from + fill - live), 4);
            crate::contain::set_phase(10 + v.len() as u64);
            let sk = skip_for(v.len());
            v.push(finish_seed(u, cfg, ops, removed, d, "tombstones", sk));
        }
    }
    // one long collision chain among otherwise well-spread keys: under SameTag
    // (hash = id) fillers 128 + 32 i all start probing at bucket 0 of a
    // 32-bucket table and are displaced from their home group, while small
    // fresh ids have their own, never-used home buckets
    for (fill, live) in [(28usize, 15usize), (28, 7), (28, 4), (27, 7)] {
        let cfg = Config { hk: HK::SameTag, cap: Some(28), limit: usize::MAX };
        let from = live / 2;
        let (ops, removed) = script_ids(fill, from..(from + fill - live), 4, 128, 32);
        crate::contain::set_phase(10 + v.len() as u64);
            let sk = skip_for(v.len());
            v.push(finish_seed(u, cfg, ops, removed, d, "collision chain", sk));
    }
    {
        let cfg = Config { hk: HK::Const, cap: Some(20), limit: usize::MAX };
        let (ops, removed) = script(24, 0..9, 4);
        crate::contain::set_phase(10 + v.len() as u64);
            let sk = skip_for(v.len());
            v.push(finish_seed(u, cfg, ops, removed, d, "tombstones (holes at the start of the probe sequence)", sk));
    }
    // exactly full tables without tombstones: any fresh insertion grows the
    // table with live entries in it (3 keys cannot do that in the closure)
    for (hk, n) in [(HK::Const, 3usize), (HK::Spread, 3), (HK::Sip, 7), (HK::SameTag, 7), (HK::Const, 14), (HK::Spread, 14)] {
        let cfg = Config { hk, cap: None, limit: usize::MAX };
        let (ops, removed) = script(n, 0..0, 2);
        crate::contain::set_phase(10 + v.len() as u64);
            let sk = skip_for(v.len());
            v.push(finish_seed(u, cfg, ops, removed, d, "full table", sk));
    }
    // caches that went through grow / shrink cycles before the exploration starts
    for (hk, variant) in [(HK::Spread, 0usize), (HK::Const, 0), (HK::Sip, 1), (HK::SameTag, 1), (HK::Spread, 2)] {
        let cfg = Config { hk, cap: None, limit: usize::MAX };
        let mut ops: Vec<Op> = vec![];
        let ins = |ops: &mut Vec<Op>, r: std::ops::Range<usize>| {
            for i in r {
                ops.push(Op::InsertRaw { k: F0 + i as u16, vheap: filler_heap(i) });
            }
        };
        let rem = |ops: &mut Vec<Op>, r: std::ops::Range<usize>| {
            for i in r {
                ops.push(Op::Remove { k: F0 + i as u16, b: i % 2 == 1 });
            }
        };
        let removed: Vec<u32>;
        match variant {
            0 => {
                // grow to 30, drop to 5, shrink, grow to 19, reserve, drop 4, shrink to 8
                ins(&mut ops, 0..30);
                rem(&mut ops, 3..28);
                ops.push(Op::ShrinkToFit);
                ins(&mut ops, 30..44);
                ops.push(Op::Reserve { a: 2 });
                rem(&mut ops, 30..34);
                ops.push(Op::ShrinkTo { m: 2 });
                removed = (3..28).map(|i| (F0 as usize + i) as u32).collect();
            }
            1 => {
                // three doublings, clone, shrink of the nearly empty clone, refill
                ins(&mut ops, 0..60);
                ops.push(Op::CloneSwap);
                rem(&mut ops, 0..57);
                ops.push(Op::ShrinkToFit);
                ins(&mut ops, 60..71);
                removed = (0..57).map(|i| (F0 as usize + i) as u32).collect();
            }
            _ => {
                // drain, refill, clear, refill past two growth steps, retain half
                ins(&mut ops, 0..9);
                ops.push(Op::Drain { pat: 1 });
                ins(&mut ops, 9..24);
                ops.push(Op::Clear);
                ins(&mut ops, 24..40);
                ops.push(Op::RetainMod { m: 2, r: 0 });
                removed = (24..40).filter(|i| (F0 as usize + i) % 2 == 0).map(|i| (F0 as usize + i) as u32).collect();
            }
        }
        crate::contain::set_phase(10 + v.len() as u64);
        let sk = skip_for(v.len());
        v.push(finish_seed(u, cfg, ops, removed, d, "cycled (grow / shrink / clone / drain cycles)", sk));
    }
    // list-shape seeds of lengths 5 and 8 (iterator patterns are exhaustive there)
    for (hk, n) in [(HK::Spread, 5usize), (HK::Sip, 8)] {
        let cfg = Config { hk, cap: None, limit: usize::MAX };
        let (ops, removed) = script(n, 0..0, 2);
        crate::contain::set_phase(10 + v.len() as u64);
            let sk = skip_for(v.len());
            v.push(finish_seed(u, cfg, ops, removed, d, "list-shape", sk));
    }
    if only_small {
        return v;
    }
    // sparse tables: many buckets, very few entries left (a mass eviction by a lowered limit)
    for (hk, n) in [(HK::Spread, 60usize), (HK::Sip, 120), (HK::Const, 60), (HK::Spread, 600)] {
        let cfg = Config { hk, cap: None, limit: usize::MAX };
        let (mut ops, _) = script(n, 0..0, 0);
        ops.push(Op::SetMaxRaw { v: 4 * u.e + 8 });
        ops.push(Op::SetMaxRaw { v: usize::MAX });
        let removed: Vec<u32> = (0..3).map(|i| F0 as u32 + i).collect();
        crate::contain::set_phase(10 + v.len() as u64);
        let sk = skip_for(v.len());
        v.push(finish_seed(u, cfg, ops, removed, d.min(2), "sparse (many buckets, few entries)", sk));
    }
    // larger caches
    let mut big: Vec<(HK, usize, usize)> = vec![(HK::Spread, 64, d), (HK::Const, 64, d.min(3)), (HK::Sip, 1000, if thorough { 3 } else { 2 })];
    if thorough {
        big.push((HK::Const, 300, 3));
        big.push((HK::Spread, 4096, 3));
        big.push((HK::SameTag, 1000, 3));
    } else {
        big.push((HK::Spread, 4096, 2));
    }
    for (hk, n, depth) in big {
        let cfg = Config { hk, cap: None, limit: usize::MAX };
        let (ops, removed) = script(n, (n / 3)..(n / 3 + n / 8), 3);
        crate::contain::set_phase(10 + v.len() as u64);
            let sk = skip_for(v.len());
            v.push(finish_seed(u, cfg, ops, removed, depth, "large", sk));
    }
    v
}

/// Ladder family: for EVERY n up to n_max a cache filled by n fresh insertions
/// (table at its natural capacity for n, and a second root created
/// with_capacity(n)), each explored for one step over a generic alphabet.
/// Covers numeric coincidences of len and capacity that the fixed seed list
/// does not hit (e.g. len 26 or 27 in a table of capacity 28).
pub fn ladder(u: &Universe, hk: HK, n_max: usize) -> (Vec<Root>, Vec<Op>) {
    let mut roots = vec![];
    for n in 0..=n_max {
        for cap in [None, Some(n as u32)] {
            if cap == Some(0) {
                continue;
            }
            let cfg = Config { hk, cap, limit: usize::MAX };
            let prefix: Vec<Op> = (0..n).map(|i| Op::InsertRaw { k: F0 + i as u16, vheap: filler_heap(i) }).collect();
            roots.push(Root { cfg, prefix, label: format!("ladder n={n} {}", cfg.show()) });
        }
    }
    let last = (u.vheaps.len() - 1) as u8;
    let mut alpha = vec![
        Op::Insert { k: 0, h: 0 },
        Op::Insert { k: 1, h: 2 },
        Op::Insert { k: F0, h: 1 },
        Op::Insert { k: F0 + 1, h: last },
        Op::TryInsert { k: 2, h: 0 },
        Op::TryInsert { k: F0, h: 0 },
        Op::Get { k: F0, b: true },
        Op::Get { k: 0, b: false },
        Op::Touch { k: F0 + 1, b: false },
        Op::Remove { k: F0, b: false },
        Op::Remove { k: F0 + 2, b: true },
        Op::Mutate { k: F0, h: 2, b: true },
        Op::Mutate { k: F0 + 1, h: last, b: false },
        Op::GetLru,
        Op::RemoveLru,
        Op::RemoveMru,
        Op::Clear,
        Op::RetainMod { m: 2, r: 0 },
        Op::RetainMod { m: 5, r: 1 },
        Op::Reserve { a: 0 },
        Op::Reserve { a: 1 },
        Op::Reserve { a: 2 },
        Op::TryReserve { a: 1 },
        Op::TryReserve { a: 3 },
        Op::ShrinkTo { m: 0 },
        Op::ShrinkTo { m: 1 },
        Op::ShrinkTo { m: 2 },
        Op::ShrinkTo { m: 3 },
        Op::ShrinkToFit,
        Op::CloneSwap,
        Op::Drain { pat: 1 },
        Op::SetMaxRaw { v: 0 },
    ];
    for l in 0..u.limits.len() as u8 {
        alpha.push(Op::SetMax { l });
    }
    (roots, alpha)
}


/// Dense seeds: a 32-bucket table at (or near) its load limit under the
/// identity-like SameTag hasher, with entries displaced from their home
/// buckets, explored with a per-key alphabet over a structurally chosen key
/// set: the displaced entries, the occupants of their home buckets, the
/// entries next to the EMPTY region, and absent keys whose home bucket is
/// EMPTY / occupied / colliding. This is where hashbrown's EMPTY / DELETED /
/// growth_left bookkeeping interacts with the cache's own re-insertions.
pub fn dense_seeds(u: &Universe, thorough: bool, skips: &[crate::contain::Skip], first_phase: usize) -> Vec<Seed> {
    let mut v: Vec<Seed> = vec![];
    let d = if thorough { 4 } else { 3 };
    let last = (u.vheaps.len() - 1) as u8;
    for variant in 0..5usize {
        let cfg = Config { hk: HK::SameTag, cap: if variant == 4 { None } else { Some(28) }, limit: usize::MAX };
        let mut prefix: Vec<Op> = vec![];
        if variant >= 3 {
            // scattered EMPTY holes (buckets 8, 21, 30, 31) in a table at its load
            // limit, and keys displaced to the buckets right after their home:
            // 0 -> bucket 0, 32 -> bucket 1, 64 -> bucket 2 (inserted first)
            for id in [0u16, 32, 64] {
                prefix.push(Op::InsertRaw { k: id, vheap: 1 });
            }
            for id in (3u16..=7).chain(9..=20).chain(22..=29) {
                prefix.push(Op::InsertRaw { k: id, vheap: (id % 3) as u32 });
            }
        } else {
        // 25 keys in their home buckets 0..24, then three keys that collide with 0, 1, 2
        for id in 0..25u16 {
            prefix.push(Op::InsertRaw { k: id, vheap: (id % 3) as u32 });
        }
        for id in [32u16, 33, 34] {
            prefix.push(Op::InsertRaw { k: id, vheap: 1 });
        }
        }
        match variant {
            0 | 3 | 4 => {}
            1 => {
                // free two slots again: one next to the EMPTY region, one in the middle of the run
                prefix.push(Op::Remove { k: 24, b: false });
                prefix.push(Op::Remove { k: 10, b: true });
            }
            _ => {
                // churn: free a home bucket, then let another key consume the growth budget
                prefix.push(Op::Remove { k: 0, b: false });
                prefix.push(Op::InsertRaw { k: 29, vheap: 0 });
                prefix.push(Op::Get { k: 5, b: true });
            }
        }
        let phase = first_phase + v.len();
        crate::contain::set_phase(phase as u64);
        if let Some(sk) = skips.iter().find(|s| s.kind == 3 && s.phase == phase as u64) {
            v.push(broken_seed(cfg, prefix.clone(), "dense", prefix.len(), sk.reason.clone()));
            continue;
        }
        reg_reset();
        crate::contain::mark(3, 0, &[], None);
        let ex = rebuild(u, &cfg, &prefix);
        if let Err(why) = crate::state::walk(&ex.cr().verif_dump()) {
            std::mem::forget(ex);
            let n = prefix.len();
            v.push(broken_seed(cfg, prefix, "dense", n, why));
            continue;
        }
        let obs = observe(ex.cr(), usize::MAX);
        let dump = ex.cr().verif_dump();
        crate::contain::idle();
        drop(ex);
        let total = obs.sum(u.e);
        prefix.push(Op::SetMaxRaw { v: total + 3 * u.e });
        let tombstones = dump.ctrl.iter().filter(|c| **c == 0x80).count();
        let keys: Vec<u16> = if variant >= 3 {
            // displaced keys, their home occupant, the neighbours of every hole, absent keys whose
            // home is a hole / occupied / colliding
            vec![0, 32, 64, 3, 7, 9, 20, 22, 29, 8, 21, 30, 1, 96]
        } else {
            vec![32, 33, 34, 0, 1, 2, 23, 24, 10, 28, 29, 35, 64]
        };
        let mut alpha = vec![];
        for &k in &keys {
            alpha.push(Op::Remove { k, b: k % 2 == 0 });
            alpha.push(Op::Insert { k, h: 0 });
            alpha.push(Op::Mutate { k, h: 2, b: k % 2 == 1 });
            alpha.push(Op::Mutate { k, h: 0, b: false });
            alpha.push(Op::Get { k, b: true });
        }
        alpha.push(Op::TryInsert { k: 30, h: 1 });
        alpha.push(Op::Mutate { k: 33, h: last, b: false });
        alpha.push(Op::RemoveLru);
        alpha.push(Op::RemoveMru);
        alpha.push(Op::ShrinkToFit);
        alpha.push(Op::Reserve { a: 1 });
        alpha.push(Op::CloneSwap);
        alpha.push(Op::SetMaxRaw { v: total / 2 });
        v.push(Seed {
            root: Root { cfg, prefix, label: format!("dense: {} entries, {} tombstones, displaced entries, per-key alphabet, {}", obs.entries.len(), tombstones, cfg.show()) },
            alpha,
            depth: d,
            extra_ids: vec![28, 29, 30, 35, 64],
            len: obs.entries.len(),
            tombstones,
            broken: None,
        });
    }
    v
}
