//! Instrumented key / value / hasher types and the per-execution registry
//! (DESIGN.md 3.2). Everything here is plain data: a double drop performed by
//! the code under test is *recorded*, it is never UB inside the harness.

use lru_mem::HeapSize;
use std::borrow::Borrow;
use std::cell::{Cell, RefCell};
use std::collections::hash_map::DefaultHasher;
use std::fmt;
use std::hash::{BuildHasher, Hash, Hasher};

// ---------------------------------------------------------------------------
// Callback kinds, counters and fuel
// ---------------------------------------------------------------------------

#[derive(Clone, Copy, PartialEq, Eq, Debug, PartialOrd, Ord, Hash)]
#[repr(u8)]
pub enum Cb {
    HashK = 0,
    HashQ = 1,
    Eq = 2,
    CloneK = 3,
    CloneV = 4,
    HeapK = 5,
    HeapV = 6,
    /// mutate closure, panics before modifying the value
    MutPre = 7,
    /// mutate closure, panics after modifying the value
    MutPost = 8,
    /// retain predicate
    Pred = 9,
}

pub const CB_KINDS: [Cb; 10] = [
    Cb::HashK,
    Cb::HashQ,
    Cb::Eq,
    Cb::CloneK,
    Cb::CloneV,
    Cb::HeapK,
    Cb::HeapV,
    Cb::MutPre,
    Cb::MutPost,
    Cb::Pred,
];

pub const NCB: usize = 10;

/// Payload of every injected panic.
pub struct InjectedPanic(pub Cb, pub u32);

thread_local! {
    static COUNTS: [Cell<u32>; NCB] = Default::default();
    /// (kind, n): the n-th (0-based) invocation of `kind` from now on panics.
    static FUEL: Cell<Option<(Cb, u32)>> = const { Cell::new(None) };
    static REG: RefCell<Registry> = RefCell::new(Registry::default());
}

pub fn counts() -> [u32; NCB] {
    COUNTS.with(|c| {
        let mut r = [0u32; NCB];
        for i in 0..NCB {
            r[i] = c[i].get();
        }
        r
    })
}

pub fn restore_counts(saved: [u32; NCB]) {
    COUNTS.with(|c| {
        for i in 0..NCB {
            c[i].set(saved[i])
        }
    })
}

pub fn reset_counts() {
    COUNTS.with(|c| {
        for x in c.iter() {
            x.set(0)
        }
    })
}

pub fn set_fuel(f: Option<(Cb, u32)>) {
    FUEL.with(|c| c.set(f))
}

pub fn fuel() -> Option<(Cb, u32)> {
    FUEL.with(|c| c.get())
}

/// Called at the start of every instrumented callback.
#[inline]
pub fn callback(kind: Cb) {
    COUNTS.with(|c| {
        let x = &c[kind as usize];
        x.set(x.get().wrapping_add(1))
    });
    let f = FUEL.with(|c| c.get());
    if let Some((k, n)) = f {
        if k == kind {
            if n == 0 {
                FUEL.with(|c| c.set(None));
                std::panic::resume_unwind(Box::new(InjectedPanic(kind, 0)));
            } else {
                FUEL.with(|c| c.set(Some((k, n - 1))));
            }
        }
    }
}

// ---------------------------------------------------------------------------
// Registry
// ---------------------------------------------------------------------------

#[derive(Clone, Copy, PartialEq, Eq, Debug)]
pub enum Status {
    Live,
    Dropped,
}

#[derive(Default)]
pub struct Registry {
    /// index = serial
    pub status: Vec<Status>,
    pub is_key: Vec<bool>,
    /// clone source serial (u64::MAX when created fresh)
    pub cloned_from: Vec<u64>,
    /// serials in drop order
    pub drop_log: Vec<u64>,
    pub violations: Vec<String>,
}

pub const NO_SERIAL: u64 = u64::MAX;

impl Registry {
    fn fresh(&mut self, is_key: bool, from: u64) -> u64 {
        let s = self.status.len() as u64;
        self.status.push(Status::Live);
        self.is_key.push(is_key);
        self.cloned_from.push(from);
        s
    }
    fn dropped(&mut self, serial: u64, is_key: bool) {
        let what = if is_key { "key" } else { "value" };
        match self.status.get(serial as usize).copied() {
            None => self.violations.push(format!(
                "drop of a {what} that was never created (serial {serial:#x}): uninitialised or freed memory was dropped"
            )),
            Some(Status::Dropped) => self
                .violations
                .push(format!("double drop of {what} serial {serial}")),
            Some(Status::Live) => {
                if self.is_key[serial as usize] != is_key {
                    self.violations.push(format!(
                        "type confusion: serial {serial} dropped as {what}"
                    ));
                }
                self.status[serial as usize] = Status::Dropped;
                self.drop_log.push(serial);
            }
        }
    }
}

/// Starts a new execution. The vectors keep their (generous) capacity so that
/// creating instances never allocates - the write trap relies on that.
pub fn reg_reset() {
    REG.with(|r| {
        let mut r = r.borrow_mut();
        r.status.clear();
        r.is_key.clear();
        r.cloned_from.clear();
        r.drop_log.clear();
        r.violations.clear();
        const CAP: usize = 1 << 15;
        if r.status.capacity() < CAP {
            r.status.reserve(CAP);
            r.is_key.reserve(CAP);
            r.cloned_from.reserve(CAP);
            r.drop_log.reserve(CAP);
            r.violations.reserve(64);
        }
    })
}

pub fn reg<R>(f: impl FnOnce(&mut Registry) -> R) -> R {
    REG.with(|r| f(&mut r.borrow_mut()))
}

pub fn reg_status(serial: u64) -> Option<Status> {
    REG.with(|r| r.borrow().status.get(serial as usize).copied())
}

/// Records a violation unless `serial` is a live instance of the given sort.
pub fn check_live(serial: u64, is_key: bool, ctx: &str) -> bool {
    REG.with(|r| {
        let mut r = r.borrow_mut();
        let what = if is_key { "key" } else { "value" };
        match r.status.get(serial as usize).copied() {
            Some(Status::Live) if r.is_key[serial as usize] == is_key => true,
            Some(Status::Live) => {
                r.violations
                    .push(format!("{ctx}: serial {serial} is not a {what}"));
                false
            }
            Some(Status::Dropped) => {
                r.violations.push(format!(
                    "{ctx}: {what} serial {serial} was observed after it had been dropped"
                ));
                false
            }
            None => {
                r.violations.push(format!(
                    "{ctx}: {what} with unknown serial {serial:#x} observed (garbage memory)"
                ));
                false
            }
        }
    })
}

pub fn take_reg_violations() -> Vec<String> {
    REG.with(|r| std::mem::take(&mut r.borrow_mut().violations))
}

pub fn live_serials() -> Vec<u64> {
    REG.with(|r| {
        r.borrow()
            .status
            .iter()
            .enumerate()
            .filter(|(_, s)| **s == Status::Live)
            .map(|(i, _)| i as u64)
            .collect()
    })
}

// ---------------------------------------------------------------------------
// Key
// ---------------------------------------------------------------------------

/// The borrowed form of a key.
#[derive(PartialEq, Eq, Clone, Copy, Debug)]
#[repr(transparent)]
pub struct KeyId(pub u32);

pub struct TKey {
    pub id: KeyId,
    pub heap: usize,
    pub serial: u64,
}

impl TKey {
    pub fn new(id: u32, heap: usize) -> TKey {
        let serial = reg(|r| r.fresh(true, NO_SERIAL));
        TKey {
            id: KeyId(id),
            heap,
            serial,
        }
    }
}

impl Drop for TKey {
    fn drop(&mut self) {
        reg(|r| r.dropped(self.serial, true));
    }
}

impl Clone for TKey {
    fn clone(&self) -> TKey {
        callback(Cb::CloneK);
        let serial = reg(|r| r.fresh(true, self.serial));
        TKey {
            id: self.id,
            heap: self.heap,
            serial,
        }
    }
}

impl fmt::Debug for TKey {
    fn fmt(&self, f: &mut fmt::Formatter<'_>) -> fmt::Result {
        write!(f, "k{}", self.id.0)
    }
}

impl PartialEq for TKey {
    fn eq(&self, other: &TKey) -> bool {
        callback(Cb::Eq);
        self.id.0 == other.id.0
    }
}
impl Eq for TKey {}

impl Hash for TKey {
    fn hash<H: Hasher>(&self, state: &mut H) {
        callback(Cb::HashK);
        state.write_u32(self.id.0);
    }
}

/// Wrapper used for lookups through the borrowed form; has its own Eq/Hash
/// instrumentation (kind HashQ) but hashes exactly like `TKey`.
#[derive(Debug)]
#[repr(transparent)]
pub struct QKey(pub KeyId);

impl PartialEq for QKey {
    fn eq(&self, other: &QKey) -> bool {
        callback(Cb::Eq);
        (self.0).0 == (other.0).0
    }
}
impl Eq for QKey {}
impl Hash for QKey {
    fn hash<H: Hasher>(&self, state: &mut H) {
        callback(Cb::HashQ);
        state.write_u32((self.0).0);
    }
}

impl Borrow<QKey> for TKey {
    fn borrow(&self) -> &QKey {
        // SAFETY: QKey is repr(transparent) over KeyId.
        unsafe { &*(&self.id as *const KeyId as *const QKey) }
    }
}

impl HeapSize for TKey {
    fn heap_size(&self) -> usize {
        callback(Cb::HeapK);
        self.heap
    }
}

// ---------------------------------------------------------------------------
// Value
// ---------------------------------------------------------------------------

pub struct TVal {
    pub heap: usize,
    pub serial: u64,
}

impl TVal {
    pub fn new(heap: usize) -> TVal {
        let serial = reg(|r| r.fresh(false, NO_SERIAL));
        TVal { heap, serial }
    }
}

impl Drop for TVal {
    fn drop(&mut self) {
        reg(|r| r.dropped(self.serial, false));
    }
}

impl Clone for TVal {
    fn clone(&self) -> TVal {
        callback(Cb::CloneV);
        let serial = reg(|r| r.fresh(false, self.serial));
        TVal {
            heap: self.heap,
            serial,
        }
    }
}

impl fmt::Debug for TVal {
    fn fmt(&self, f: &mut fmt::Formatter<'_>) -> fmt::Result {
        write!(f, "v{}", self.heap)
    }
}

impl HeapSize for TVal {
    fn heap_size(&self) -> usize {
        callback(Cb::HeapV);
        self.heap
    }
}

// ---------------------------------------------------------------------------
// Hashers
// ---------------------------------------------------------------------------

#[derive(Clone, Copy, PartialEq, Eq, Debug, PartialOrd, Ord, Hash)]
#[repr(u8)]
pub enum HK {
    /// every key hashes to 0: same probe start, same tag
    Const = 0,
    /// same probe start, distinct tags
    SamePos = 1,
    /// distinct probe starts, same tag
    SameTag = 2,
    /// multiplicative, well distributed
    Spread = 3,
    /// SipHash-1-3 with zero keys (std DefaultHasher::new())
    Sip = 4,
}

pub const ALL_HK: [HK; 5] = [HK::Const, HK::SamePos, HK::SameTag, HK::Spread, HK::Sip];

impl HK {
    pub fn name(self) -> &'static str {
        match self {
            HK::Const => "Const",
            HK::SamePos => "SamePos",
            HK::SameTag => "SameTag",
            HK::Spread => "Spread",
            HK::Sip => "Sip",
        }
    }
    pub fn parse(s: &str) -> Option<HK> {
        ALL_HK.iter().copied().find(|h| h.name().eq_ignore_ascii_case(s))
    }
}

#[derive(Clone, Debug, PartialEq, Eq)]
pub struct TBuild {
    pub kind: HK,
}

pub enum THasher {
    Simple(HK, u64),
    Sip(DefaultHasher),
}

impl BuildHasher for TBuild {
    type Hasher = THasher;
    fn build_hasher(&self) -> THasher {
        match self.kind {
            HK::Sip => THasher::Sip(DefaultHasher::new()),
            k => THasher::Simple(k, 0),
        }
    }
}

impl Hasher for THasher {
    fn write(&mut self, bytes: &[u8]) {
        match self {
            THasher::Simple(_, acc) => {
                for b in bytes {
                    *acc = acc.wrapping_mul(257).wrapping_add(*b as u64);
                }
            }
            THasher::Sip(h) => h.write(bytes),
        }
    }
    fn write_u32(&mut self, v: u32) {
        match self {
            THasher::Simple(_, acc) => *acc = v as u64,
            THasher::Sip(h) => h.write_u32(v),
        }
    }
    fn finish(&self) -> u64 {
        match self {
            THasher::Simple(k, acc) => match k {
                HK::Const => 0,
                HK::SamePos => (*acc & 0x7f) << 57,
                HK::SameTag => *acc & 0x00ff_ffff_ffff_ffff,
                HK::Spread => acc.wrapping_mul(0x9E37_79B9_7F4A_7C15),
                HK::Sip => unreachable!(),
            },
            THasher::Sip(h) => h.finish(),
        }
    }
}

pub type Cache = lru_mem::LruCache<TKey, TVal, TBuild>;

/// Runs harness-side code that may reach instrumented callbacks without
/// disturbing the callback counters or the fuel.
pub fn quiet<R>(f: impl FnOnce() -> R) -> R {
    let saved_fuel = fuel();
    set_fuel(None);
    let saved = counts();
    let r = f();
    COUNTS.with(|c| {
        for i in 0..NCB {
            c[i].set(saved[i])
        }
    });
    set_fuel(saved_fuel);
    r
}

/// size_of::<Entry<TKey, TVal>>() as seen by lru-mem (entry_size of a pair
/// without heap), measured without disturbing counters or fuel.
pub fn entry_overhead() -> usize {
    let saved_fuel = fuel();
    set_fuel(None);
    let saved = counts();
    let k = TKey {
        id: KeyId(0),
        heap: 0,
        serial: NO_SERIAL,
    };
    let v = TVal {
        heap: 0,
        serial: NO_SERIAL,
    };
    let e = lru_mem::entry_size(&k, &v);
    std::mem::forget(k);
    std::mem::forget(v);
    COUNTS.with(|c| {
        for i in 0..NCB {
            c[i].set(saved[i])
        }
    });
    set_fuel(saved_fuel);
    e
}
