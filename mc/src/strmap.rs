//! A second instantiation of the cache for C04's "lookups through any borrowed
//! form of the key": `LruCache<&'static str, TVal, TBuild>` whose keys are
//! overlapping slices of ONE buffer (so distinct keys share their start
//! address, and one is a prefix of the other), looked up through the unsized
//! borrowed form `str` both with the aliasing slices and with fresh heap
//! copies. Explicit-state closure over all operation sequences, compared with
//! a Vec reference.

use crate::check::{Props, Violation};
use crate::state::dump_fingerprint;
use crate::types::*;
use lru_mem::LruCache;
use std::collections::{HashMap, VecDeque};

static BUF: &str = "abcab";

/// (start, end) of each key within BUF: "a","ab","" (a zero-sized borrowed form),"abc","b","bc","c","abca"
const KEYS: [(usize, usize); 8] = [(0, 1), (0, 2), (2, 2), (0, 3), (1, 2), (1, 3), (2, 3), (0, 4)];
// note: BUF[3..4] == "a" and BUF[3..5] == "ab" are equal in content to keys 0
// and 1 but live at another address: used as a third lookup form
const ALT: [(usize, usize); 2] = [(3, 4), (3, 5)];

fn key(i: usize) -> &'static str {
    &BUF[KEYS[i].0..KEYS[i].1]
}

type SCache = LruCache<&'static str, TVal, TBuild>;

#[derive(Clone, Copy, Debug, PartialEq, Eq)]
enum Form {
    /// the aliasing static slice itself
    Alias,
    /// a fresh heap copy of the text
    Fresh,
    /// equal text at a different place of the same buffer (keys 0 and 1 only)
    Alt,
}

#[derive(Clone, Copy, Debug, PartialEq, Eq)]
enum SOp {
    Insert(usize, usize),
    TryInsert(usize),
    Get(usize, Form),
    GetEntry(usize, Form),
    Peek(usize, Form),
    PeekEntry(usize, Form),
    Contains(usize, Form),
    Touch(usize, Form),
    Remove(usize, Form),
    RemoveEntry(usize, Form),
    Mutate(usize, Form),
    ShrinkToFit,
    Reserve,
}

fn show(op: &SOp) -> String {
    let f = |i: &usize, fm: &Form| match fm {
        Form::Alias => format!("&BUF[{}..{}] /* {:?} */", KEYS[*i].0, KEYS[*i].1, key(*i)),
        Form::Fresh => format!("String::from({:?}).as_str()", key(*i)),
        Form::Alt => format!("&BUF[{}..{}] /* {:?} at another address */", ALT[*i].0, ALT[*i].1, key(*i)),
    };
    match op {
        SOp::Insert(i, h) => format!("insert(&BUF[{}..{}] /* {:?} */, v{h})", KEYS[*i].0, KEYS[*i].1, key(*i)),
        SOp::TryInsert(i) => format!("try_insert(&BUF[{}..{}] /* {:?} */, v0)", KEYS[*i].0, KEYS[*i].1, key(*i)),
        SOp::Get(i, fm) => format!("get({})", f(i, fm)),
        SOp::GetEntry(i, fm) => format!("get_entry({})", f(i, fm)),
        SOp::Peek(i, fm) => format!("peek({})", f(i, fm)),
        SOp::PeekEntry(i, fm) => format!("peek_entry({})", f(i, fm)),
        SOp::Contains(i, fm) => format!("contains({})", f(i, fm)),
        SOp::Touch(i, fm) => format!("touch({})", f(i, fm)),
        SOp::Remove(i, fm) => format!("remove({})", f(i, fm)),
        SOp::RemoveEntry(i, fm) => format!("remove_entry({})", f(i, fm)),
        SOp::Mutate(i, fm) => format!("mutate({}, |v| v.heap ^= 1)", f(i, fm)),
        SOp::ShrinkToFit => "shrink_to_fit()".into(),
        SOp::Reserve => "reserve(9)".into(),
    }
}

fn alphabet(nkeys: usize) -> Vec<SOp> {
    let mut v = vec![];
    for i in 0..nkeys {
        v.push(SOp::Insert(i, 0));
        v.push(SOp::Insert(i, 1));
        v.push(SOp::TryInsert(i));
        let mut forms = vec![Form::Alias, Form::Fresh];
        if i < 2 {
            forms.push(Form::Alt);
        }
        for fm in forms {
            v.push(SOp::Get(i, fm));
            v.push(SOp::GetEntry(i, fm));
            v.push(SOp::Peek(i, fm));
            v.push(SOp::PeekEntry(i, fm));
            v.push(SOp::Contains(i, fm));
            v.push(SOp::Touch(i, fm));
            v.push(SOp::Remove(i, fm));
            v.push(SOp::RemoveEntry(i, fm));
            v.push(SOp::Mutate(i, fm));
        }
    }
    v.push(SOp::ShrinkToFit);
    v.push(SOp::Reserve);
    v
}

/// reference: (key index, value serial, value heap), LRU -> MRU
type Model = Vec<(usize, u64, usize)>;

#[derive(Debug, PartialEq, Eq, Clone)]
enum SRet {
    Unit,
    Val(Option<u64>),
    Entry(Option<(usize, u64)>),
    Bool(bool),
    InsertOk(Option<u64>),
    TryOk(bool),
    Mut(Option<u64>),
}

fn key_index(k: &str) -> usize {
    KEYS.iter().position(|(a, b)| &BUF[*a..*b] == k).unwrap_or(99)
}

fn with_q<R>(i: usize, fm: Form, f: impl FnOnce(&str) -> R) -> R {
    match fm {
        Form::Alias => f(key(i)),
        Form::Fresh => {
            let s = String::from(key(i));
            f(s.as_str())
        }
        Form::Alt => f(&BUF[ALT[i].0..ALT[i].1]),
    }
}

fn apply(c: &mut SCache, op: SOp, held: &mut Vec<TVal>) -> (SRet, u64) {
    let mut in_v = NO_SERIAL;
    let r = match op {
        SOp::Insert(i, h) => {
            let v = TVal::new(h);
            in_v = v.serial;
            match c.insert(key(i), v) {
                Ok(old) => SRet::InsertOk(old.map(|v| {
                    let s = v.serial;
                    held.push(v);
                    s
                })),
                Err(e) => {
                    drop(e);
                    SRet::Unit
                }
            }
        }
        SOp::TryInsert(i) => {
            let v = TVal::new(0);
            in_v = v.serial;
            SRet::TryOk(c.try_insert(key(i), v).is_ok())
        }
        SOp::Get(i, fm) => SRet::Val(with_q(i, fm, |q| c.get(q).map(|v| v.serial))),
        SOp::GetEntry(i, fm) => SRet::Entry(with_q(i, fm, |q| c.get_entry(q).map(|(k, v)| (key_index(k), v.serial)))),
        SOp::Peek(i, fm) => SRet::Val(with_q(i, fm, |q| c.peek(q).map(|v| v.serial))),
        SOp::PeekEntry(i, fm) => SRet::Entry(with_q(i, fm, |q| c.peek_entry(q).map(|(k, v)| (key_index(k), v.serial)))),
        SOp::Contains(i, fm) => SRet::Bool(with_q(i, fm, |q| c.contains(q))),
        SOp::Touch(i, fm) => {
            with_q(i, fm, |q| c.touch(q));
            SRet::Unit
        }
        SOp::Remove(i, fm) => SRet::Val(with_q(i, fm, |q| c.remove(q)).map(|v| {
            let s = v.serial;
            held.push(v);
            s
        })),
        SOp::RemoveEntry(i, fm) => SRet::Entry(with_q(i, fm, |q| c.remove_entry(q)).map(|(k, v)| {
            let s = v.serial;
            held.push(v);
            (key_index(k), s)
        })),
        SOp::Mutate(i, fm) => SRet::Mut(
            with_q(i, fm, |q| {
                c.mutate(q, |v| {
                    v.heap ^= 1;
                    v.serial
                })
            })
            .ok()
            .flatten(),
        ),
        SOp::ShrinkToFit => {
            c.shrink_to_fit();
            SRet::Unit
        }
        SOp::Reserve => {
            c.reserve(9);
            SRet::Unit
        }
    };
    (r, in_v)
}

fn step(m: &mut Model, op: SOp, in_v: u64) -> SRet {
    let pos = |m: &Model, i: usize| m.iter().position(|x| x.0 == i);
    match op {
        SOp::Insert(i, h) => {
            let old = pos(m, i).map(|p| m.remove(p));
            m.push((i, in_v, h));
            SRet::InsertOk(old.map(|x| x.1))
        }
        SOp::TryInsert(i) => {
            if pos(m, i).is_some() {
                SRet::TryOk(false)
            } else {
                m.push((i, in_v, 0));
                SRet::TryOk(true)
            }
        }
        SOp::Get(i, _) | SOp::GetEntry(i, _) | SOp::Touch(i, _) => {
            let x = pos(m, i).map(|p| m.remove(p));
            let r = match op {
                SOp::Get(..) => SRet::Val(x.map(|x| x.1)),
                SOp::GetEntry(..) => SRet::Entry(x.map(|x| (x.0, x.1))),
                _ => SRet::Unit,
            };
            if let Some(x) = x {
                m.push(x);
            }
            r
        }
        SOp::Peek(i, _) => SRet::Val(pos(m, i).map(|p| m[p].1)),
        SOp::PeekEntry(i, _) => SRet::Entry(pos(m, i).map(|p| (m[p].0, m[p].1))),
        SOp::Contains(i, _) => SRet::Bool(pos(m, i).is_some()),
        SOp::Remove(i, _) => SRet::Val(pos(m, i).map(|p| m.remove(p).1)),
        SOp::RemoveEntry(i, _) => SRet::Entry(pos(m, i).map(|p| {
            let x = m.remove(p);
            (x.0, x.1)
        })),
        SOp::Mutate(i, _) => match pos(m, i) {
            None => SRet::Mut(None),
            Some(p) => {
                let mut x = m.remove(p);
                x.2 ^= 1;
                m.push(x);
                SRet::Mut(Some(x.1))
            }
        },
        SOp::ShrinkToFit | SOp::Reserve => SRet::Unit,
    }
}

fn observe(c: &SCache) -> Model {
    c.iter().map(|(k, v)| (key_index(k), v.serial, v.heap)).collect()
}

pub struct StrMapResult {
    pub states: usize,
    pub transitions: u64,
    pub violations: Vec<Violation>,
    pub samples: Vec<Vec<String>>,
}

/// Closure over all histories for one hasher kind.
pub fn explore(hk: HK, nkeys: usize, props: Props) -> StrMapResult {
    let alpha = alphabet(nkeys);
    let mut res = StrMapResult { states: 0, transitions: 0, violations: vec![], samples: vec![] };
    // state key -> history
    let mut seen: HashMap<Vec<u64>, Vec<SOp>> = HashMap::new();
    let mut queue: VecDeque<Vec<SOp>> = VecDeque::new();
    let rebuild = |hist: &[SOp]| -> (SCache, Vec<TVal>) {
        let mut c: SCache = LruCache::with_hasher(usize::MAX, TBuild { kind: hk });
        let mut held = vec![];
        for op in hist {
            let _ = apply(&mut c, *op, &mut held);
        }
        (c, held)
    };
    let key_of = |c: &SCache| -> Vec<u64> {
        let mut k = dump_fingerprint(&c.verif_dump());
        for (i, _, h) in observe(c) {
            k.push(i as u64);
            k.push(h as u64);
        }
        k
    };
    reg_reset();
    let (c0, _) = rebuild(&[]);
    seen.insert(key_of(&c0), vec![]);
    drop(c0);
    queue.push_back(vec![]);
    while let Some(hist) = queue.pop_front() {
        res.states += 1;
        for &op in &alpha {
            reg_reset();
            let (mut c, mut held) = rebuild(&hist);
            let mut m = observe(&c);
            let (ret, in_v) = apply(&mut c, op, &mut held);
            let want = step(&mut m, op, in_v);
            let got_m = observe(&c);
            res.transitions += 1;
            let bad_ret = ret != want && !matches!((&ret, &want), (SRet::Unit, SRet::InsertOk(_)));
            if bad_ret || got_m != m {
                if res.violations.len() < 6 {
                    let mut lines = vec![format!("static BUF: &str = {:?}; let mut cache: LruCache<&'static str, V, _> = LruCache::with_hasher(usize::MAX, {});", BUF, hk.name())];
                    lines.extend(hist.iter().map(|o| format!("{};", show(o))));
                    lines.push(format!("{};   // <- violating step", show(&op)));
                    res.violations.push(Violation {
                        props,
                        rule: "C04.borrowed-form",
                        detail: format!(
                            "returned {:?}, a sequential map returns {:?}; holds (key, value#, heap) {:?}, expected {:?}\n    {}",
                            ret,
                            want,
                            got_m.iter().map(|x| (KEYS.get(x.0).map(|_| key(x.0)).unwrap_or("?"), x.1, x.2)).collect::<Vec<_>>(),
                            m.iter().map(|x| (key(x.0), x.1, x.2)).collect::<Vec<_>>(),
                            lines.join("\n    ")
                        ),
                    });
                }
                continue;
            }
            let k = key_of(&c);
            if !seen.contains_key(&k) {
                let mut h = hist.clone();
                h.push(op);
                if res.samples.len() < 2 && h.len() == 4 {
                    res.samples.push(h.iter().map(show).collect());
                }
                seen.insert(k, h.clone());
                queue.push_back(h);
            }
            drop(c);
            drop(held);
        }
        if res.violations.len() >= 6 {
            break;
        }
    }
    res
}
