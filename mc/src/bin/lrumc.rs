//! lrumc: explicit-state model checker for lru-mem's LruCache.
//!
//! lrumc explore --prop C01 --tier quick --out evidence.json --replay-dir DIR [--known FILE]
//! lrumc replay --file F

use harness::check::*;
use harness::explore::*;
use harness::ops::*;
use harness::plan;
use std::collections::HashMap;

#[global_allocator]
static GLOBAL: harness::trap::TrapAlloc = harness::trap::TrapAlloc;

fn main() {
    let args: Vec<String> = std::env::args().collect();
    let mut opt: HashMap<String, String> = HashMap::new();
    let mut i = 2;
    while i < args.len() {
        if let Some(k) = args[i].strip_prefix("--") {
            if i + 1 < args.len() && !args[i + 1].starts_with("--") {
                opt.insert(k.to_string(), args[i + 1].clone());
                i += 2;
            } else {
                opt.insert(k.to_string(), "1".into());
                i += 1;
            }
        } else {
            i += 1;
        }
    }
    // silent panic hook: panics are data here
    let default_hook = std::panic::take_hook();
    std::panic::set_hook(Box::new(move |info| {
        // panics on worker threads are data (caught and judged); a panic on
        // the main thread is a bug in the engine and must be visible
        if std::thread::current().name() == Some("main") || std::env::var_os("LRUMC_DEBUG_PANICS").is_some() {
            default_hook(info);
        }
    }));
    let code = match args.get(1).map(|s| s.as_str()) {
        Some("explore") => plan::cmd_explore(&opt),
        Some("replay") => plan::cmd_replay(&opt),
        Some("instvar") => {
            let depth: usize = opt.get("depth").and_then(|s| s.parse().ok()).unwrap_or(3);
            let t0 = std::time::Instant::now();
            let ladder: usize = opt.get("ladder").and_then(|s| s.parse().ok()).unwrap_or(40);
            let r = if opt.contains_key("faults") { harness::instvar::explore_faults(depth, &[9, 17, 20, 33, 70], 16, &[]) } else { harness::instvar::explore(depth, ladder, opt.get("deep").and_then(|s| s.parse().ok()).unwrap_or(5), &[5000, 20000, 70000], 16, &[]) };
            println!("instvar depth={depth} faults={} sequences={} steps={} checks={} outcomes={:?} violations={} wall={:.1}s", r.faults, r.sequences, r.steps, r.checks, r.outcomes, r.violations.len(), t0.elapsed().as_secs_f64());
            for v in r.violations.iter().take(8) {
                println!("  {} {}", v.rule, v.detail);
            }
            0
        }
        Some("decode-marker") => {
            let nkeys: u16 = opt.get("nkeys").and_then(|s| s.parse().ok()).unwrap_or(3);
            let u = Universe::new(nkeys, false);
            match opt.get("file").and_then(|f| harness::contain::decode(f, &u)) {
                Some(j) => {
                    println!("{}", serde_json::to_string_pretty(&j).unwrap());
                    0
                }
                None => {
                    eprintln!("no crashing worker recorded in the marker file");
                    2
                }
            }
        }
        _ => {
            eprintln!("usage: lrumc explore|replay ...");
            2
        }
    };
    let _ = (alphabet as fn(&Universe) -> Vec<Op>, ALL_PROPS, std::mem::size_of::<ExploreOpts>());
    std::process::exit(code);
}
