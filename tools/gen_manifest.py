#!/usr/bin/env python3
"""Regenerates /verif/MANIFEST.json (kept in one place so the texts stay consistent)."""
import json
import os

VERIF = os.path.dirname(os.path.dirname(os.path.abspath(__file__)))

COMMON_PHASES = ("closure of the 3-key universe to a fixpoint (5 hasher kinds x 3 initial capacities, 5 value sizes, key 0 in two sizes, "
                 "8 limits incl. 0 and usize::MAX; thorough: 4 keys), lean 4-key closure, ~50 seeded depth-bounded explorations "
                 "(tombstone families, collision chains, exactly full tables, grow/shrink cycles, 64-4096 entry caches), and the ladder "
                 "(every fill level n up to 300 / 1200, 1-2 steps); plus, for all properties but C08/C09/C16/C18, every operation sequence of <= 3 "
                 "(thorough: 4) of ~60 operations (incl. clone_from into four kinds of target, reservations that must fail and a forgotten drain) from 4 prefixes x "
                 "{unbounded, exactly full} on 11 other instantiations of K, V, S (plain data with varying size estimate and non-bitwise Clone, "
                 "String/&str, PathBuf looked up through another spelling of the same &Path, zero-sized key, zero-sized value, 32-byte aligned value, 200-byte inline value, default hasher, a hash builder whose clone hashes differently, drop glue on one side only) with "
                 "their own fill ladder up to 40 / 300 and 372 periodic schedules of 70 000 / 300 000 steps; states that an operation leaves with a changed cache object although the hook's dump is unchanged "
                 "(hidden state) are re-explored as unmerged roots, in the closure and in the seed phases")

LRUMC_NOTE = ("Exhaustive within the stated alphabet, universes, seed list and depth bounds (fixpoint for the closures); every state is "
              "reached by replaying its witness history on the real code and must reproduce its canonical key. Trusted: the reference "
              "semantics (DESIGN 3.10), the canonicalisation argument (3.4), rustc; hashbrown is executed, not modelled. Not covered: "
              "key/value/hasher types other than the instrumented ones and the 11 + 4 + 1 further instantiations (instvar, typevar, strmap), hash values "
              "outside the five hasher kinds, histories that need more than 4 distinct keys and are not within the depth bound of a seed.")

MC = "explicit-state model checking of the real code (parallel BFS to a fixpoint over canonical concrete states, replay-validated witness histories, step-local and history-level reference oracle)"

CHECKS = {
    "C01": ("model_checking", "lrumc", "invariant current_size() <= max_size() and Σ entry_size <= max_size() after every transition of: " + COMMON_PHASES + "; and after a caught panic before / after the mutate closure changed the value or in the retain predicate, in every state of the closure", LRUMC_NOTE, MC),
    "C02": ("model_checking", "lrumc", "invariant current_size() == Σ entry_size(k,v) over iter(), len() == count, empty <=> 0 in every reached state of: " + COMMON_PHASES + "; a non-terminating eviction loop is reported through the hang monitor", LRUMC_NOTE, MC),
    "C03": ("model_checking", "lrumc", "every transition: set and drop order of the entries that left unasked == the minimal LRU prefix, both by the order the cache reported before the step and by the order of last access the reference accumulated over the whole history; over: " + COMMON_PHASES, LRUMC_NOTE, MC),
    "C04": ("model_checking", "lrumc", "every transition: return value (instances by identity) and contents equal the sequential-map reference; every state: peek / peek_entry / contains in owned and borrowed form agree with the traversal by pointer identity; plus a str-keyed instantiation whose keys are overlapping slices of one buffer looked up through aliasing and fresh &str; over: " + COMMON_PHASES + "; thorough adds a stateright cross-check of the state count", LRUMC_NOTE, MC),
    "C05": ("model_checking", "lrumc", "every transition: recency order equals the reference's order of last access; every state: peek_lru / peek_mru / keys / values / reverse iteration agree; over: " + COMMON_PHASES + "; and the relative order of the remaining entries after a caught panic at every callback index (instantiation variants)", LRUMC_NOTE, MC),
    "C06": ("model_checking", "lrumc", "identity registry: conservation after every transition (every live instance is held by the cache or by the caller), every state x {drop, clear, drain, into_iter, into_keys, into_values} x every next/next_back pattern and prefix ends with each instance dropped exactly once; plus the same life-cycle sweep with only the key or only the value having drop glue; when an operation leaves the structure incoherent the drop of the cache is tried out in a forked child process and judged by the registry there; thorough adds an AddressSanitizer re-run", LRUMC_NOTE, MC),
    "C07": ("model_checking", "lrumc", "pointer-validating walker on the hook's dump after every transition (before any API call touches the post state), iter item i lives in list node i, mirror traversal and lookup identity in every state; what an operation frees is poisoned and held back until the operation is over and must still be all poison then (write after free); seed scripts validated step by step; 256 KiB worker stacks; crashes attributed through markers; over: " + COMMON_PHASES + "; thorough adds an AddressSanitizer re-run and a stateright cross-check", LRUMC_NOTE, MC),
    "C10": ("model_checking", "lrumc", "every insert / try_insert transition: classification in the stated order, error fields, returned instances by identity (all six accessors), complete canonical dump (incl. control bytes and capacity) unchanged on failure, no eviction by a fitting try_insert; over: " + COMMON_PHASES, LRUMC_NOTE, MC),
    "C11": ("model_checking", "lrumc", "every mutate transition (shrink / equal / grow-fits / grow-evict-1 / grow-evict-2+ / overflow x position lru/middle/mru/only): closure call log, forwarded token, re-accounting (on the instantiation variants the mutated entry is removed afterwards and must give back exactly its accounted size), minimal eviction sparing the mutated entry, overflow payload; over: " + COMMON_PHASES, LRUMC_NOTE, MC),
    "C12": ("model_checking", "lrumc", "every state x 7 iterator kinds x every next/next_back sequence of length len+3 (structured family F^a B^b, B^b F^a, alternation for lists longer than 8) and every prefix + drop for the owning kinds; post-drain state identical however much was consumed; plus type variants", LRUMC_NOTE, MC),
    "C13": ("model_checking", "lrumc", "every capacity operation with every argument in every state: bounds, transparency, failing reserve / try_reserve leaves the canonical dump unchanged; growth-size rule; capacity bound as a state invariant; allocator-failure enumeration (every allocation of every try_reserve refused once); families: with_capacity(n)+n inserts for all n, churn at constant length for all L x 3 positions; ladder over every fill level. One recorded known finding (shrink raises capacity() with tombstones)", LRUMC_NOTE, MC + " + fault enumeration (allocator refusal) + parametric families"),
    "C14": ("model_checking", "lrumc", "clone in every state: equality, fresh copies (Clone log), source byte-identical, walker on the clone; one-step product exploration on both sides with differential independence and both drop orders; clone-and-continue is an operation of the alphabet so every clone's full concrete state is explored further", LRUMC_NOTE, MC),
    "C15": ("model_checking", "lrumc", "retain(S) for every subset S of the key universe in every closure state (residue classes on seeds): predicate call log, survivors and their order, drops, accounting", LRUMC_NOTE, MC),
    "C16": ("fault_enumeration", "lrumc", "every reachable state (3-key closure, small seeds) x every operation incl. lookups and Debug x every callback kind {K::hash, Q::hash, Eq, K::clone, V::clone, K/V size estimate, mutate closure before/after the change, retain predicate} x every invocation index: one injected panic; walker + registry + recorded-size oracle + closure-specific rules on the post-fault cache; every post-fault state that is not a closure state explored for d_after further operations and a drop; the same on 8 other instantiations (an interrupted clone_from leaves its half-built target alive, which is then the cache under test); thorough: second fault, AddressSanitizer re-run", "Deviation bound 1 (quick) / 2 (thorough). Panics in Drop impls and in BuildHasher are outside the statement. " + LRUMC_NOTE, "deviation-bounded fault enumeration on the real code on top of the explicit-state closure (panic injected at the n-th user callback)"),
    "C17": ("fault_enumeration", "lrumc", "every reachable state x every iterator kind x every next/next_back prefix followed by mem::forget, then drop of what was yielded, walker + registry + lookups on the cache, continuation and drop; plus the type-variant sweep with a forgotten drain", "Deviation bound: one leaked iterator per execution. " + LRUMC_NOTE, "deviation-bounded fault enumeration on the real code on top of the explicit-state closure (iterator leaked after every prefix)"),
    "C19": ("model_checking", "lrumc", "every reached state x every &self operation x every key (owned and borrowed form): (a) hook dump and raw bytes of struct, seal and table identical before/after; (b) MMU write trap: the state is rebuilt inside an mmap arena, the arena is mprotect'ed read-only while the operations run, a SIGSEGV handler records any write into memory the cache owns (catches idempotent and temporary writes)", "No store to the cache's memory by any &self operation in any explored state; this is what rules out data races between shared-reference operations, so no thread schedules are explored (the crate has no synchronisation to schedule around). " + LRUMC_NOTE, MC + " with an mprotect write trap as monitor"),
    "C20": ("model_checking", "lrumc", "Hash::hash invocation count (owned and borrowed key forms) per operation against 2 + departed (+ len for table-rebuilding operations), 0 for traversals / clear / drain / peek_lru / peek_mru, on every transition and every read-only operation, cache sizes 0 ... 4096", LRUMC_NOTE, MC),
    "C08": ("model_checking", "sizemc", "every type expression over 33 constructors x 12 leaves to one constructor level, two / three levels over the override-bearing constructors (quick: 1153 types incl. two user-defined element types that rely on the default bulk helpers; thorough: + 4 414 types to depth 3-4), every instance shape (length x spare capacity x child choice x Option/Result variants x poisoned locks), 22 helper x iterator-adaptor combinations against element-wise sums; totality ladder of 1e3 / 1e5 / 2^20 elements on a 256 KiB stack in a dev build in child processes", "Exhaustive over the generated catalogue and the stated instance caps; element counts beyond 2^20 and types outside the catalogue are not covered. Trusted: the one-line-per-constructor structural reference.", "bounded-exhaustive enumeration of inputs (type nestings x instance shapes x iterator adaptors) executed on the real code against a structural reference"),
    "C09": ("model_checking", "sizemc", "every catalogue instance plus every build script of <= 2 (quick) / 3 (thorough) steps from 4 starts over {push, extend, reserve, reserve_exact, shrink_to_fit, shrink_to, truncate, clear} for String, OsString, PathBuf, Vec<T>, BinaryHeap<T> (12 element types), bare and inside 10 wrappers: heap_size == bytes held from a counting global allocator (<= and >= formula for HashMap / HashSet)", "Exhaustive over the script alphabet and depth: every reachable (len, capacity) relation under those scripts. Trusted: the counting allocator sees every allocation of the building thread.", "explicit enumeration of all build scripts to a depth (state = (len, capacity) relation) with the process allocator as oracle"),
    "C18": ("exploration", "probes", "complete {Send+Sync, Send-only, Sync-only, neither}^3 x {Send, Sync} lattice (128 programs), generic bound probes, 72 negative iterator programs (none of the 7 iterator types may be Send / Sync with a witness in K, V or S that would keep the cache itself from being sent / shared), 17 reference / iterator-returning API expressions x 7 conflicting uses + conflict-free twins (368 programs): rustc accept/reject and error code vs. the expectation computed from the property's predicate", "The quantifier is over programs; the enumeration over the stated program space is exhaustive, each verdict is rustc's (trusted). There are no executions to explore for a compile-time property; not a proof about all Rust programs.", "exhaustive enumeration of a finite program space with the compiler as accept/reject oracle"),
}


def main():
    checks = []
    for pid in sorted(CHECKS):
        lvl, eng, txt, note, tech = CHECKS[pid]
        checks.append({
            "property_id": pid,
            "quick_cmd": "./check %s --tier quick" % pid,
            "thorough_cmd": "./check %s --tier thorough" % pid,
            "evidence_file": "/verif/evidence/%s.json" % pid,
            "replay_cmd_template": "./check %s --replay {path}" % pid,
            "engine": eng,
            "level_claimed": {"category": lvl, "text": txt, "design_ref": "DESIGN.md section 4 (%s) and section 9" % pid},
            "level_note": note,
            "technique": tech,
        })
    m = {
        "version": 1,
        "setup_cmd": "cd /verif/mc && export CARGO_NET_OFFLINE=true CARGO_TARGET_DIR=/verif/target/stable && cargo build --release --offline --bin lrumc && cargo build --offline --bin sizemc",
        "hooks": {
            "guard": "cargo feature verif_hooks",
            "enable": "path dependency: lru-mem = { path = \"/repo\", features = [\"verif_hooks\"] } in /verif/mc/Cargo.toml",
            "baseline_off_cmd": "cd /repo && (cargo nextest run --workspace --no-fail-fast --offline || cargo test --workspace --no-fail-fast --offline)",
            "source_commits": ["a310120", "397e0a9"],
            "add_only": True,
        },
        "engines": [
            {"name": "lrumc", "path": "/verif/mc", "serves_properties": sorted(p for p in CHECKS if CHECKS[p][1] == "lrumc"),
             "kind_free_text": "explicit-state model checker linking the real lru-mem; hand-rolled deterministic parallel BFS, fault enumeration, mprotect write trap, containment of hangs and crashes"},
            {"name": "sizemc", "path": "/verif/mc/src/bin/sizemc.rs", "serves_properties": ["C08", "C09"],
             "kind_free_text": "bounded-exhaustive type-shape / build-script enumerator with counting global allocator; dev profile; child processes for stack-exhaustion cases"},
            {"name": "probes", "path": "/verif/probes/run_probes.py", "serves_properties": ["C18"],
             "kind_free_text": "probe-program generator + parallel rustc --emit=metadata against the freshly built liblru_mem.rlib"},
            {"name": "sr_crosscheck", "path": "/verif/mc/src/bin/sr_crosscheck.rs", "serves_properties": ["C04", "C07"],
             "kind_free_text": "stateright Model over the same transition function; cross-checks the closure's state count (thorough tier)"},
        ],
        "checks": checks,
        "not_applicable": [],
        "notes": "See DESIGN.md (sections 9 and 10 describe what was built and the seeded-defect experiments). ./check <ID> --tier quick|thorough; exit 0 / 1 / 2 (2 = machinery error, never a verdict). Six genuine defects were repaired by fix: commits in /repo (1c417c6, 7a9c7ce, de5fd97, de9c395, 4747514, d530c60), one is recorded in KNOWN_FINDINGS.txt (C13).",
    }
    json.dump(m, open(os.path.join(VERIF, "MANIFEST.json"), "w"), indent=1)


if __name__ == "__main__":
    main()
