//! Deviation-bounded fault enumeration (DESIGN.md 3.5): one injected panic at
//! every callback index of every operation in every state (C16), and
//! mem::forget of every iterator after every consumption prefix (C17).

use crate::check::*;
use crate::explore::VRecLite;
use crate::ops::*;
use crate::state::*;
use crate::statecheck::*;
use crate::types::*;
use std::collections::BTreeSet;
use std::panic::{catch_unwind, AssertUnwindSafe};

pub struct ExtraOut {
    pub viol: Vec<VRecLite>,
    /// (extra history reaching a state that may be new, its canonical key)
    pub novel: Vec<(Vec<Op>, Vec<u8>)>,
}

/// Alphabet for the fault scan: the closure alphabet plus read-only lookups.
pub fn fault_alphabet(u: &Universe) -> Vec<Op> {
    let mut v = alphabet(u);
    for b in [false, true] {
        for k in 0..u.nkeys {
            v.push(Op::Peek { k, b });
            v.push(Op::PeekEntry { k, b });
            v.push(Op::Contains { k, b });
        }
    }
    v.push(Op::DebugFmt);
    v
}

fn lite(props: Props, rule: &'static str, detail: String, op: Option<Op>, extra_hist: Vec<Op>) -> VRecLite {
    VRecLite { props, rule, detail, op, extra_hist }
}

/// Oracle for a cache right after a fault (panic or leaked iterator): walker
/// before anything else, recorded sum, then observation with liveness checks,
/// mirror traversal, lookups. Returns Ok((snapshot)) if the cache is coherent.
/// Marks the key of a post-fault state whose hook-visible part equals the
/// pre-state while the cache object's bytes changed.
pub const HIDDEN_MAGIC: &[u8] = b"\xEE<hidden-state>\xEE";
/// the same without a fault: an ordinary operation that looks like a self-loop to the hook
pub const HIDDEN_MAGIC_T: &[u8] = b"\xEE<hidden-state-t>\xEE";

/// The bytes of the cache object itself (not of what it points to).
pub fn raw_bytes(c: &Cache) -> Vec<u8> {
    let n = std::mem::size_of::<Cache>();
    let p = c as *const Cache as *const u8;
    (0..n).map(|i| unsafe { std::ptr::read_volatile(p.add(i)) }).collect()
}

pub fn post_fault_oracle(u: &Universe, cfg: &Config, ex: &mut Exec, fp: Props, viol: &mut Vec<(Props, &'static str, String)>) -> Option<Snap> {
    let dump = ex.cr().verif_dump();
    let w = match walk(&dump) {
        Ok(w) => w,
        Err(why) => {
            viol.push((fp, "postfault.structure", format!("the list/table structure is incoherent: {why}")));
            std::mem::forget(ex.cache.take());
            return None;
        }
    };
    if w.recorded_sum != dump.current_size {
        viol.push((fp, "C16.recorded-sum", format!("current_size() = {} but the sizes recorded for the remaining entries sum to {}", dump.current_size, w.recorded_sum)));
    }
    let obs = observe(ex.cr(), dump.items + 1);
    let key = if obs.overrun { Err("iter() yields more entries than the table holds".to_string()) } else { canon(cfg.hk, &dump, &w, &obs, &[]) };
    let key = match key {
        Ok(k) => k,
        Err(why) => {
            viol.push((fp, "postfault.traversal", why));
            std::mem::forget(ex.cache.take());
            return None;
        }
    };
    // mirror + len + lookups
    let c = ex.cr();
    let n = obs.entries.len();
    let mut rev: Vec<u64> = c.iter().rev().take(n + 2).map(|(k, _)| k.serial).collect();
    rev.reverse();
    let fwd: Vec<u64> = obs.entries.iter().map(|x| x.kserial).collect();
    if rev != fwd || c.len() != n {
        viol.push((fp, "postfault.mirror", format!("forward traversal {:?}, reversed reverse traversal {:?}, len() = {}", fwd, rev, c.len())));
    }
    let mut ids: Vec<u32> = (0..u.nkeys as u32).collect();
    for x in &obs.entries {
        if !ids.contains(&x.id) {
            ids.push(x.id);
        }
    }
    for id in ids {
        let exp = obs.entries.iter().find(|x| x.id == id);
        let got = c.peek_entry(&QKey(KeyId(id))).map(|(k, x)| (k.serial, x.serial));
        if got != exp.map(|x| (x.kserial, x.vserial)) || c.contains(&QKey(KeyId(id))) != exp.is_some() {
            viol.push((fp, "postfault.lookup", format!("lookup of k{id} finds {:?} but traversal holds {:?}", got, exp.map(|x| (x.kserial, x.vserial)))));
        }
    }
    for rv in take_reg_violations() {
        viol.push((fp, "postfault.registry", rv));
    }
    Some(Snap { dump, walk: w, obs, key })
}

/// C16: every operation of `alpha` in the state reached by `hist`, with a
/// panic injected at every callback index of every kind.
pub fn fault_scan(ctx: &Ctx, cfg: &Config, hist: &[Op], alpha: &[Op], st: &mut Stats) -> ExtraOut {
    fault_scan_kinds(ctx, cfg, hist, alpha, &CB_KINDS, st)
}

/// Operations that run a user closure, for the closure-only scan (C01: "the memory bound also
/// still holds" after a panicking mutate closure or retain predicate).
pub fn closure_alphabet(u: &Universe) -> Vec<Op> {
    alphabet(u).into_iter().filter(|o| matches!(o, Op::Mutate { .. } | Op::Retain { .. } | Op::RetainMod { .. })).collect()
}

/// The same with the injected panics restricted to some callback kinds.
pub fn fault_scan_kinds(ctx: &Ctx, cfg: &Config, hist: &[Op], alpha: &[Op], kinds: &[Cb], st: &mut Stats) -> ExtraOut {
    let u = ctx.u;
    let fp = p(16);
    let mut out = ExtraOut { viol: vec![], novel: vec![] };
    for &op in alpha {
        // dry run: count callbacks
        reg_reset();
        reset_counts();
        set_fuel(None);
        let mut ex = rebuild(u, cfg, hist);
        let c0 = counts();
        let r = apply_caught(&mut ex, op);
        let c1 = counts();
        st.executions += 1;
        let dry_panicked = matches!(r, Ret::Panicked(_));
        ex.release();
        match walk(&ex.cr().verif_dump()) {
            Ok(_) => drop(ex.cache.take()),
            Err(_) => std::mem::forget(ex.cache.take()),
        }
        if dry_panicked {
            // documented panic (reserve overflow) or another property's problem
            continue;
        }
        for kind in kinds.iter().copied() {
            let cnt = c1[kind as usize] - c0[kind as usize];
            if let Cb::MutPost = kind {
                // a closure that panics after growing the value by more than a
                // couple of bytes leaves a stale recorded size that a later,
                // legitimate shrink could underflow - outside what C16 states
                if let Op::Mutate { h, .. } = op {
                    if u.vheaps[h as usize] > 2 {
                        continue;
                    }
                }
            }
            for idx in 0..cnt.min(200) {
                reg_reset();
                reset_counts();
                set_fuel(None);
                let mut ex = rebuild(u, cfg, hist);
                let pre = observe(ex.cr(), usize::MAX);
                let _ = take_reg_violations();
                let pre_fp = dump_fingerprint(&ex.cr().verif_dump());
                let pre_addr = ex.cr().verif_dump().alloc_addr;
                let raw_pre = raw_bytes(ex.cr());
                set_fuel(Some((kind, idx)));
                let res = catch_unwind(AssertUnwindSafe(|| ex.apply(op)));
                let fired = fuel().is_none();
                set_fuel(None);
                let side = Exec::side_now();
                st.executions += 1;
                st.transitions += 1;
                st.rule("C16.inject");
                let arm = Op::ArmFuel { kind: kind as u8, idx: idx as u16 };
                let mut viol: Vec<(Props, &'static str, String)> = vec![];
                match &res {
                    Ok(_) => {
                        if !fired {
                            // the callback was not reached on this run: the dry
                            // run and this run disagree
                            viol.push((0, "machinery", format!("callback {:?}#{idx} not reached", kind)));
                        }
                    }
                    Err(pl) => {
                        if !is_injected(pl) {
                            viol.push((fp, "C16.other-panic", format!("instead of propagating the injected panic the operation panicked with: {}", payload_str(pl))));
                        }
                    }
                }
                st.class(match kind {
                    Cb::HashK | Cb::HashQ => "fault:hash",
                    Cb::Eq => "fault:eq",
                    Cb::CloneK | Cb::CloneV => "fault:clone",
                    Cb::HeapK | Cb::HeapV => "fault:size-estimate",
                    Cb::MutPre | Cb::MutPost => "fault:mutate-closure",
                    Cb::Pred => "fault:retain-predicate",
                });
                if let Some(snap) = post_fault_oracle(u, cfg, &mut ex, fp, &mut viol) {
                    let o = &snap.obs;
                    // closure panics: bound holds, nothing lost
                    match kind {
                        Cb::MutPre | Cb::MutPost => {
                            st.rule("C16.closure");
                            if o.cur > o.limit {
                                viol.push((fp | p(1), "C16.bound", format!("after a panicking mutate closure current_size() = {} > max_size() = {}", o.cur, o.limit)));
                            }
                            let a: Vec<u64> = pre.entries.iter().map(|x| x.kserial).collect();
                            let b: BTreeSet<u64> = o.entries.iter().map(|x| x.kserial).collect();
                            let lost: Vec<u64> = a.iter().copied().filter(|s| !b.contains(s)).collect();
                            if !lost.is_empty() {
                                viol.push((fp, "C16.lost", format!("a panicking mutate closure lost entries (key instances {:?})", lost)));
                            }
                        }
                        Cb::Pred => {
                            st.rule("C16.closure");
                            if o.cur > o.limit {
                                viol.push((fp | p(1), "C16.bound", format!("after a panicking retain predicate current_size() = {} > max_size() = {}", o.cur, o.limit)));
                            }
                            // rejected so far = completed predicate calls that returned false
                            let done = &side.pred_calls[..side.pred_calls.len().saturating_sub(1)];
                            let rejected: BTreeSet<u64> = match op {
                                Op::Retain { mask } => done
                                    .iter()
                                    .filter(|(ks, _)| {
                                        let id = pre.entries.iter().find(|x| x.kserial == *ks).map(|x| x.id).unwrap_or(0);
                                        (mask >> (id % 16)) & 1 == 0
                                    })
                                    .map(|x| x.0)
                                    .collect(),
                                Op::RetainMod { m, r } => done
                                    .iter()
                                    .filter(|(ks, _)| {
                                        let id = pre.entries.iter().find(|x| x.kserial == *ks).map(|x| x.id).unwrap_or(0);
                                        id % (m as u32) == r as u32
                                    })
                                    .map(|x| x.0)
                                    .collect(),
                                _ => BTreeSet::new(),
                            };
                            let want: Vec<u64> = pre.entries.iter().map(|x| x.kserial).filter(|s| !rejected.contains(s)).collect();
                            let got: Vec<u64> = o.entries.iter().map(|x| x.kserial).collect();
                            if want != got {
                                viol.push((fp, "C16.lost", format!("after a panicking retain predicate the cache holds key instances {:?}; only the already rejected ones may be gone: expected {:?}", got, want)));
                            }
                        }
                        _ => {}
                    }
                    if viol.is_empty() {
                        let mut key = snap.key;
                        // Everything the hook knows is as before the operation, and still the
                        // cache object's own bytes differ: the fault left state behind that the
                        // canonical key cannot see. Such a state is explored in its own right.
                        let raw_post = raw_bytes(ex.cr());
                        if raw_post != raw_pre && pre_fp == dump_fingerprint(&snap.dump) && pre_addr == snap.dump.alloc_addr {
                            key.extend_from_slice(HIDDEN_MAGIC);
                            key.extend(raw_pre.iter().zip(raw_post.iter()).enumerate().filter(|(_, (a, b))| a != b).map(|(i, _)| i as u8));
                        }
                        out.novel.push((vec![arm, op], key));
                    }
                    // end of life: drop what we hold, then the cache
                    ex.release();
                    let _ = catch_unwind(AssertUnwindSafe(|| drop(ex.cache.take())));
                    for rv in take_reg_violations() {
                        viol.push((fp, "postfault.registry", format!("when the cache was dropped afterwards: {rv}")));
                    }
                } else {
                    ex.release();
                    for rv in take_reg_violations() {
                        viol.push((fp, "postfault.registry", rv));
                    }
                }
                for (props, rule, detail) in viol {
                    if rule == "machinery" {
                        out.viol.push(lite(0, "machinery", detail, Some(op), vec![arm]));
                    } else if props & ctx.sel != 0 {
                        out.viol.push(lite(props, rule, format!("{} with a panic in invocation #{idx} of {:?}: {detail}", op.show(u), kind), Some(op), vec![arm]));
                    }
                }
            }
        }
    }
    out
}

/// C17: leak every iterator after every consumption prefix.
pub fn forget_scan(ctx: &Ctx, cfg: &Config, hist: &[Op], exhaustive_len: usize, st: &mut Stats) -> ExtraOut {
    let u = ctx.u;
    let fp = p(17);
    let mut out = ExtraOut { viol: vec![], novel: vec![] };
    reg_reset();
    set_fuel(None);
    let ex0 = rebuild(u, cfg, hist);
    let n = ex0.cr().len();
    match walk(&ex0.cr().verif_dump()) {
        Ok(_) => drop(ex0),
        Err(_) => std::mem::forget(ex0),
    }
    let mut pats: Vec<Vec<bool>> = vec![];
    if n <= exhaustive_len {
        for l in 0..=(n + 1) {
            pats.extend(all_patterns(l));
        }
    } else {
        pats = family_patterns(n + 1);
    }
    for kind in ITER_KINDS {
        for pat in &pats {
            if pat.len() > 64 {
                continue;
            }
            reg_reset();
            reset_counts();
            let mut ex = rebuild(u, cfg, hist);
            let o0 = observe(ex.cr(), usize::MAX);
            let _ = take_reg_violations();
            st.executions += 1;
            st.transitions += 1;
            st.rule("C17.forget");
            st.class(match kind {
                IterKind::Drain => "forget:drain",
                IterKind::Iter | IterKind::Keys | IterKind::Values => "forget:borrowing",
                _ => "forget:into",
            });
            let mut viol: Vec<(Props, &'static str, String)> = vec![];
            let mut extra_hist = vec![];
            match kind {
                IterKind::Iter | IterKind::Keys | IterKind::Values => {
                    let guard = RoGuard::new(ex.cr());
                    {
                        let c = ex.cr();
                        match kind {
                            IterKind::Iter => {
                                let mut it = c.iter();
                                for f in pat {
                                    if let Some((k, v)) = if *f { it.next() } else { it.next_back() } {
                                        check_live(k.serial, true, "iter item");
                                        check_live(v.serial, false, "iter item");
                                    }
                                }
                                std::mem::forget(it);
                            }
                            IterKind::Keys => {
                                let mut it = c.keys();
                                for f in pat {
                                    if let Some(k) = if *f { it.next() } else { it.next_back() } {
                                        check_live(k.serial, true, "keys item");
                                    }
                                }
                                std::mem::forget(it);
                            }
                            _ => {
                                let mut it = c.values();
                                for f in pat {
                                    if let Some(v) = if *f { it.next() } else { it.next_back() } {
                                        check_live(v.serial, false, "values item");
                                    }
                                }
                                std::mem::forget(it);
                            }
                        }
                    }
                    if let Some(why) = guard.changed(ex.cr()) {
                        viol.push((fp, "C17.borrowing-changed", format!("leaking a borrowing iterator changed the cache: {why}")));
                    }
                    let _ = post_fault_oracle(u, cfg, &mut ex, fp, &mut viol);
                }
                IterKind::Drain => {
                    let mut bits = 0u64;
                    for (i, f) in pat.iter().enumerate() {
                        if *f {
                            bits |= 1 << i;
                        }
                    }
                    let op = Op::DrainForget { n: pat.len() as u8, bits };
                    extra_hist.push(op);
                    let r = catch_unwind(AssertUnwindSafe(|| ex.apply(op)));
                    match r {
                        Err(pl) => viol.push((fp, "C17.panic", format!("panicked: {}", payload_str(&pl)))),
                        Ok(ret) => {
                            // what was yielded comes off the two ends in order
                            let want = expected_items(&o0, pat, kind);
                            let got: Vec<Option<(u64, u64)>> = match &ret {
                                Ret::Drained(v) => v.iter().map(|x| x.as_ref().map(|(k, v)| (k.serial, v.serial))).collect(),
                                _ => vec![],
                            };
                            if got != want && ctx.sel & p(12) != 0 {
                                viol.push((p(12), "C12.sequence", format!("drain yielded {:?}, expected {:?}", got, want)));
                            }
                        }
                    }
                    // drop what was yielded first: if the cache still owns those
                    // instances, the observation below sees dropped instances
                    ex.release();
                    if let Some(snap) = post_fault_oracle(u, cfg, &mut ex, fp, &mut viol) {
                        if viol.is_empty() {
                            out.novel.push((extra_hist.clone(), snap.key));
                        }
                        let _ = catch_unwind(AssertUnwindSafe(|| drop(ex.cache.take())));
                        for rv in take_reg_violations() {
                            viol.push((fp, "postfault.registry", format!("when the cache was dropped afterwards: {rv}")));
                        }
                    }
                }
                _ => {
                    let r = catch_unwind(AssertUnwindSafe(|| run_owning(&mut ex, kind, pat, true)));
                    if let Err(pl) = r {
                        viol.push((fp, "C17.panic", format!("panicked: {}", payload_str(&pl))));
                    }
                    ex.release();
                    for rv in take_reg_violations() {
                        viol.push((fp, "postfault.registry", rv));
                    }
                }
            }
            for (props, rule, detail) in viol {
                if props & ctx.sel != 0 {
                    out.viol.push(lite(props, rule, format!("{:?} driven by {} then mem::forget: {detail}", kind, pat_str(pat)), None, extra_hist.clone()));
                }
            }
        }
    }
    out
}
