//! Type-instantiation variants for the drop properties (C06, C12, C17): the
//! main engine instantiates the cache with a key AND a value type that have
//! drop glue. Code may legitimately specialise on `mem::needs_drop`, so the
//! same life-cycle sweep is run with (tracked key, plain value) and
//! (plain key, tracked value): every operation sequence up to a depth over a
//! small alphabet, followed by every terminal action under every
//! next/next_back pattern, judged by the identity registry.

use crate::check::{p, Props, Violation};
use crate::statecheck::{all_patterns, pat_str};
use crate::types::*;
use lru_mem::{HeapSize, LruCache};
use std::hash::Hash;

pub trait Kit {
    type K: Hash + Eq + lru_mem::MemSize + Clone;
    type V: lru_mem::MemSize + Clone;
    const NAME: &'static str;
    /// cloning a value changes its size estimate (like a Vec with spare
    /// capacity): a clone is then accounted by the sizes copied from the
    /// source, so current_size need not equal the sum of entry_size over the
    /// clone's contents - but it must still return to 0 when the clone is emptied
    const CLONE_CHANGES_SIZE: bool = false;
    fn key(id: u32) -> Self::K;
    fn val(h: usize) -> Self::V;
    fn key_id(k: &Self::K) -> u32;
}

pub struct TrackedKeyPlainVal;
impl Kit for TrackedKeyPlainVal {
    type K = TKey;
    type V = u64;
    const NAME: &'static str = "LruCache<K with drop glue, u64>";
    fn key(id: u32) -> TKey {
        TKey::new(id, 0)
    }
    fn val(h: usize) -> u64 {
        h as u64
    }
    fn key_id(k: &TKey) -> u32 {
        k.id.0
    }
}

pub struct PlainKeyTrackedVal;
impl Kit for PlainKeyTrackedVal {
    type K = u32;
    type V = TVal;
    const NAME: &'static str = "LruCache<u32, V with drop glue>";
    fn key(id: u32) -> u32 {
        id
    }
    fn val(h: usize) -> TVal {
        TVal::new(h)
    }
    fn key_id(k: &u32) -> u32 {
        *k
    }
}

/// A value whose size estimate includes slack that a clone does not have.
pub struct SlackVal {
    pub heap: usize,
    pub slack: usize,
}
impl Clone for SlackVal {
    fn clone(&self) -> SlackVal {
        SlackVal { heap: self.heap, slack: 0 }
    }
}
impl HeapSize for SlackVal {
    fn heap_size(&self) -> usize {
        self.heap + self.slack
    }
}

pub struct TrackedKeySlackVal;
impl Kit for TrackedKeySlackVal {
    type K = TKey;
    type V = SlackVal;
    const NAME: &'static str = "LruCache<K, V whose clone has a smaller size estimate>";
    const CLONE_CHANGES_SIZE: bool = true;
    fn key(id: u32) -> TKey {
        TKey::new(id, 0)
    }
    fn val(h: usize) -> SlackVal {
        SlackVal { heap: h, slack: 5 }
    }
    fn key_id(k: &TKey) -> u32 {
        k.id.0
    }
}

/// inline sizes that do not add up to a multiple of the entry's alignment
pub struct PaddedPlain;
impl Kit for PaddedPlain {
    type K = u8;
    type V = u64;
    const NAME: &'static str = "LruCache<u8, u64>";
    fn key(id: u32) -> u8 {
        id as u8
    }
    fn val(h: usize) -> u64 {
        h as u64
    }
    fn key_id(k: &u8) -> u32 {
        *k as u32
    }
}

#[derive(Clone, Copy, Debug, PartialEq, Eq)]
enum TOp {
    Insert(u32),
    Remove(u32),
    Get(u32),
    RemoveLru,
    RemoveMru,
    Retain,
    Evict,
    Reserve,
    Shrink,
    Clear,
    CloneSwap,
}

const ALPHA: [TOp; 14] = [
    TOp::Insert(0),
    TOp::Insert(1),
    TOp::Insert(2),
    TOp::Insert(3),
    TOp::Remove(1),
    TOp::Get(0),
    TOp::RemoveLru,
    TOp::RemoveMru,
    TOp::Retain,
    TOp::Evict,
    TOp::Reserve,
    TOp::Shrink,
    TOp::Clear,
    TOp::CloneSwap,
];

#[derive(Clone, Copy, Debug, PartialEq, Eq)]
enum Terminal {
    Drop,
    ClearDrop,
    Drain,
    IntoIter,
    IntoKeys,
    IntoValues,
    DrainForget,
}

const TERMINALS: [Terminal; 7] = [
    Terminal::Drop,
    Terminal::ClearDrop,
    Terminal::Drain,
    Terminal::IntoIter,
    Terminal::IntoKeys,
    Terminal::IntoValues,
    Terminal::DrainForget,
];

fn apply<T: Kit>(c: &mut LruCache<T::K, T::V, TBuild>, op: TOp, e: usize) {
    match op {
        TOp::Insert(k) => {
            let _ = c.insert(T::key(k), T::val(1));
        }
        TOp::Remove(k) => {
            let _ = c.remove(&T::key(k));
        }
        TOp::Get(k) => {
            let _ = c.get(&T::key(k));
        }
        TOp::RemoveLru => {
            let _ = c.remove_lru();
        }
        TOp::RemoveMru => {
            let _ = c.remove_mru();
        }
        TOp::Retain => c.retain(|k, _| T::key_id(k) % 2 == 0),
        TOp::Evict => {
            let m = c.max_size();
            c.set_max_size(e + e / 2);
            c.set_max_size(m);
        }
        TOp::Reserve => c.reserve(9),
        TOp::Shrink => c.shrink_to_fit(),
        TOp::Clear => c.clear(),
        TOp::CloneSwap => {
            let c2 = c.clone();
            *c = c2;
        }
    }
}

/// C02 on one instantiation: after every step of every sequence.
fn accounting<T: Kit>(depth: usize, hk: HK, out: &mut TypeVarResult) {
    let e = {
        let k = T::key(0);
        let v = T::val(0);
        lru_mem::entry_size(&k, &v) - k.heap_size() - v.heap_size()
    };
    let mut seqs: Vec<Vec<TOp>> = vec![vec![]];
    let mut frontier = seqs.clone();
    for _ in 0..depth {
        let mut next = vec![];
        for s in &frontier {
            for op in ALPHA {
                let mut n = s.clone();
                n.push(op);
                next.push(n);
            }
        }
        seqs.extend(next.iter().cloned());
        frontier = next;
    }
    for seq in &frontier {
        reg_reset();
        let mut c: LruCache<T::K, T::V, TBuild> = LruCache::with_hasher(usize::MAX, TBuild { kind: hk });
        let mut cloned = false;
        for (i, op) in seq.iter().enumerate() {
            apply::<T>(&mut c, *op, e);
            cloned |= matches!(op, TOp::CloneSwap);
            out.lives += 1;
            let sum: usize = c.iter().map(|(k, v)| lru_mem::entry_size(k, v)).sum();
            let n = c.iter().count();
            let mut why = None;
            if !(cloned && T::CLONE_CHANGES_SIZE) && c.current_size() != sum {
                why = Some(format!("current_size() = {} but Σ entry_size(k, v) over the {} held entries = {}", c.current_size(), n, sum));
            } else if c.len() != n || c.is_empty() != (n == 0) || (c.current_size() == 0) != (n == 0) {
                why = Some(format!("len() = {}, is_empty() = {}, current_size() = {} with {} entries held", c.len(), c.is_empty(), c.current_size(), n));
            }
            if let Some(w) = why {
                if out.violations.len() < 6 {
                    out.violations.push(Violation {
                        props: p(2),
                        rule: "C02.type-variant",
                        detail: format!("{} with hasher {}: after {:?}: {}", T::NAME, hk.name(), &seq[..=i], w),
                    });
                }
                break;
            }
        }
        let _ = take_reg_violations();
    }
}

pub struct TypeVarResult {
    pub lives: u64,
    pub states: usize,
    pub violations: Vec<Violation>,
}

fn sweep<T: Kit>(depth: usize, hk: HK, props: Props, out: &mut TypeVarResult) {
    // entry overhead for this instantiation
    let e = {
        let k = T::key(0);
        let v = T::val(0);
        lru_mem::entry_size(&k, &v) - k.heap_size() - v.heap_size()
    };
    let mut seqs: Vec<Vec<TOp>> = vec![vec![]];
    let mut frontier = seqs.clone();
    for _ in 0..depth {
        let mut next = vec![];
        for s in &frontier {
            for op in ALPHA {
                let mut n = s.clone();
                n.push(op);
                next.push(n);
            }
        }
        seqs.extend(next.iter().cloned());
        frontier = next;
    }
    out.states += seqs.len();
    for seq in &seqs {
        for term in TERMINALS {
            // the length of the list decides the patterns
            reg_reset();
            let mut probe: LruCache<T::K, T::V, TBuild> = LruCache::with_hasher(usize::MAX, TBuild { kind: hk });
            for op in seq {
                apply::<T>(&mut probe, *op, e);
            }
            let n = probe.len();
            drop(probe);
            let pats: Vec<Vec<bool>> = match term {
                Terminal::Drop | Terminal::ClearDrop => vec![vec![]],
                _ => (0..=(n + 1)).flat_map(all_patterns).collect(),
            };
            for pat in &pats {
                reg_reset();
                let mut c: LruCache<T::K, T::V, TBuild> = LruCache::with_hasher(usize::MAX, TBuild { kind: hk });
                for op in seq {
                    apply::<T>(&mut c, *op, e);
                }
                out.lives += 1;
                let mut got: Vec<(Option<T::K>, Option<T::V>)> = vec![];
                let leaked_ok;
                match term {
                    Terminal::Drop => {
                        drop(c);
                        leaked_ok = false;
                    }
                    Terminal::ClearDrop => {
                        c.clear();
                        drop(c);
                        leaked_ok = false;
                    }
                    Terminal::Drain => {
                        {
                            let mut d = c.drain();
                            for f in pat {
                                if let Some((k, v)) = if *f { d.next() } else { d.next_back() } {
                                    got.push((Some(k), Some(v)));
                                }
                            }
                        }
                        // the drained cache is usable
                        let _ = c.insert(T::key(9), T::val(0));
                        drop(c);
                        leaked_ok = false;
                    }
                    Terminal::DrainForget => {
                        {
                            let mut d = c.drain();
                            for f in pat {
                                if let Some((k, v)) = if *f { d.next() } else { d.next_back() } {
                                    got.push((Some(k), Some(v)));
                                }
                            }
                            std::mem::forget(d);
                        }
                        got.clear(); // drop what was yielded first
                        let _ = c.insert(T::key(9), T::val(0));
                        drop(c);
                        leaked_ok = true;
                    }
                    Terminal::IntoIter => {
                        let mut it = c.into_iter();
                        for f in pat {
                            if let Some((k, v)) = if *f { it.next() } else { it.next_back() } {
                                got.push((Some(k), Some(v)));
                            }
                        }
                        drop(it);
                        leaked_ok = false;
                    }
                    Terminal::IntoKeys => {
                        let mut it = c.into_keys();
                        for f in pat {
                            if let Some(k) = if *f { it.next() } else { it.next_back() } {
                                got.push((Some(k), None));
                            }
                        }
                        drop(it);
                        leaked_ok = false;
                    }
                    Terminal::IntoValues => {
                        let mut it = c.into_values();
                        for f in pat {
                            if let Some(v) = if *f { it.next() } else { it.next_back() } {
                                got.push((None, Some(v)));
                            }
                        }
                        drop(it);
                        leaked_ok = false;
                    }
                }
                drop(got);
                let mut problems = take_reg_violations();
                let still = live_serials();
                if !leaked_ok && !still.is_empty() {
                    problems.push(format!("{} instance(s) were neither yielded nor dropped", still.len()));
                }
                if !problems.is_empty() && out.violations.len() < 6 {
                    let tprops = match term {
                        Terminal::DrainForget => props & p(17),
                        Terminal::Drop | Terminal::ClearDrop => props & p(6),
                        _ => props & (p(6) | p(12)),
                    };
                    if tprops != 0 {
                        out.violations.push(Violation {
                            props: tprops,
                            rule: "C06.type-variant",
                            detail: format!(
                                "{} with hasher {}: after {:?}, terminal action {:?} driven by {}: {}",
                                T::NAME,
                                hk.name(),
                                seq,
                                term,
                                pat_str(pat),
                                problems.join("; ")
                            ),
                        });
                    }
                }
            }
        }
    }
}

pub fn explore(depth: usize, props: Props) -> TypeVarResult {
    let mut out = TypeVarResult { lives: 0, states: 0, violations: vec![] };
    for hk in [HK::Const, HK::Spread] {
        if props & (p(6) | p(12) | p(17)) != 0 {
            sweep::<TrackedKeyPlainVal>(depth, hk, props, &mut out);
            sweep::<PlainKeyTrackedVal>(depth, hk, props, &mut out);
        }
        if props & p(2) != 0 {
            accounting::<TrackedKeyPlainVal>(depth + 1, hk, &mut out);
            accounting::<PlainKeyTrackedVal>(depth + 1, hk, &mut out);
            accounting::<PaddedPlain>(depth + 1, hk, &mut out);
            accounting::<TrackedKeySlackVal>(depth + 1, hk, &mut out);
        }
    }
    out
}
