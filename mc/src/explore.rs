//! Level-synchronous, parallel, deterministic explicit-state exploration of the
//! real cache (DESIGN.md 3.5).

use crate::check::*;
use crate::ops::*;
use crate::statecheck::*;
use std::collections::HashMap;
use std::sync::atomic::{AtomicBool, AtomicUsize, Ordering};
use std::sync::{Arc, Mutex};
use std::time::Instant;

#[derive(Clone, Debug)]
pub struct Root {
    pub cfg: Config,
    pub prefix: Vec<Op>,
    pub label: String,
}

#[derive(Clone, Copy)]
pub struct StateRec {
    pub parent: u32,
    pub op: u16,
    pub root: u32,
    pub depth: u16,
    /// first state (in BFS order) with its list/table shape
    pub shape_rep: bool,
}

#[derive(Clone, Debug)]
pub struct VRec {
    pub props: Props,
    pub rule: &'static str,
    pub detail: String,
    pub root: usize,
    pub hist: Vec<Op>,
    pub op: Option<Op>,
    /// "transition" | "state" | "fault"
    pub mode: &'static str,
}

pub struct ExploreOpts {
    pub threads: usize,
    pub max_depth: usize,
    pub max_states: usize,
    pub wall_cap_s: f64,
    pub state_opts: Option<StateOpts>,
    pub transitions: bool,
    pub max_violations: usize,
    /// optional extra per-state hook (fault enumeration etc.)
    pub extra: Option<Arc<dyn Fn(&Ctx, &Config, &[Op], &mut Stats) -> crate::faults::ExtraOut + Send + Sync>>,
    /// phase number (for markers and the skip list)
    pub phase: u64,
    /// transitions that crashed or hung in an earlier attempt of this run
    pub skips: Vec<crate::contain::Skip>,
    /// give-up bound for this phase after repeated hangs / crashes
    pub depth_cap: Option<usize>,
    /// run the expensive per-state checks (owning-iterator patterns, clone
    /// product) only in states up to this depth
    pub heavy_depth_limit: Option<u16>,
    /// run the owning-iterator sweep only in the first state of each
    /// list/table shape (iterators and Drop cannot observe ids, sizes or the
    /// limit); false = in every state
    pub owning_by_shape: bool,
    /// never merge two roots (their states may differ in ways the canonical key cannot see)
    pub distinct_roots: bool,
}

pub struct VRecLite {
    pub props: Props,
    pub rule: &'static str,
    pub detail: String,
    pub op: Option<Op>,
    pub extra_hist: Vec<Op>,
}

pub struct ExploreResult {
    pub states: usize,
    pub transitions: u64,
    pub depth_completed: usize,
    pub fixpoint: bool,
    pub cap_hit: Option<String>,
    pub stats: Stats,
    pub violations: Vec<VRec>,
    pub machinery: Option<String>,
    pub samples: Vec<(usize, Vec<Op>)>,
    pub level_sizes: Vec<usize>,
    pub wall_s: f64,
    /// states reached by a fault whose canonical key is not a state of this
    /// exploration: (root, full history, key), deduplicated, deterministic order
    pub novel: Vec<(usize, Vec<Op>, Vec<u8>)>,
    pub fault_states: u64,
    /// occurrences of recorded known findings: rule -> (count, first example)
    pub known: std::collections::BTreeMap<&'static str, (u64, VRec)>,
}

struct WorkOut {
    novel: Vec<(Vec<Op>, Vec<u8>)>,
    new: Vec<(u16, Vec<u8>)>,
    viol: Vec<VRec>,
    stats: Stats,
    machinery: Option<String>,
}

pub struct Explorer<'a> {
    pub ctx: &'a Ctx<'a>,
    pub roots: Vec<Root>,
    pub alpha: Vec<Op>,
    pub states: Vec<StateRec>,
    pub keys: Vec<Arc<[u8]>>,
    pub seen: HashMap<Arc<[u8]>, u32>,
    /// the reference's own state after each root's prefix (history-level rules)
    pub root_ref: Vec<Option<(Vec<crate::refmodel::RE>, usize)>>,
    pub shapes: std::collections::HashSet<Vec<u8>>,
}

impl<'a> Explorer<'a> {
    pub fn new(ctx: &'a Ctx<'a>, roots: Vec<Root>, alpha: Vec<Op>) -> Explorer<'a> {
        Explorer { ctx, roots, alpha, states: vec![], keys: vec![], seen: HashMap::new(), root_ref: vec![], shapes: Default::default() }
    }

    /// (root, operations after the root's prefix)
    pub fn path(&self, mut id: u32) -> (usize, Vec<Op>) {
        let mut ops = vec![];
        loop {
            let s = self.states[id as usize];
            if s.parent == u32::MAX {
                ops.reverse();
                return (s.root as usize, ops);
            }
            ops.push(self.alpha[s.op as usize]);
            id = s.parent;
        }
    }

    fn skipped<'b>(&self, opts: &'b ExploreOpts, root: usize, path: &[Op], op: Option<Op>, kinds: &[u8]) -> Option<&'b crate::contain::Skip> {
        opts.skips.iter().find(|s| s.phase == opts.phase && s.root as usize == root && kinds.contains(&s.kind) && s.op == op && s.path == path)
    }

    fn skip_violation(&self, sk: &crate::contain::Skip, root: usize, hist: &[Op], op: Option<Op>) -> VRec {
        let crash = !sk.reason.contains("no progress");
        let owner = op.map(op_owner).unwrap_or(0);
        let props = if sk.kind == 2 {
            p(16) | p(17)
        } else if crash {
            p(6) | p(7) | p(4) | owner | self.ctx.fault_props
        } else {
            p(2) | p(4) | owner | self.ctx.fault_props
        };
        VRec {
            props,
            rule: if crash { "containment.crash" } else { "containment.hang" },
            detail: format!("{} (the step was not executed again in this attempt; replaying it reproduces the {})", sk.reason, if crash { "crash" } else { "hang" }),
            root,
            hist: hist.to_vec(),
            op,
            mode: if sk.kind == 2 { "fault" } else if op.is_some() { "transition" } else { "state" },
        }
    }

    pub fn history(&self, mut id: u32) -> (usize, Vec<Op>) {
        let mut ops = vec![];
        loop {
            let s = self.states[id as usize];
            if s.parent == u32::MAX {
                let mut h = self.roots[s.root as usize].prefix.clone();
                ops.reverse();
                h.extend(ops);
                return (s.root as usize, h);
            }
            ops.push(self.alpha[s.op as usize]);
            id = s.parent;
        }
    }

    fn expand(&self, id: u32, opts: &ExploreOpts, do_transitions: bool) -> WorkOut {
        let (root, hist) = self.history(id);
        let (_, path) = self.path(id);
        let cfg = self.roots[root].cfg;
        let key = self.keys[id as usize].clone();
        let mut out = WorkOut { novel: vec![], new: vec![], viol: vec![], stats: Stats::default(), machinery: None };
        let state_skip = self.skipped(opts, root, &path, None, &[1]).cloned();
        if let Some(sk) = &state_skip {
            let vr = self.skip_violation(sk, root, &hist, None);
            if vr.props & self.ctx.sel != 0 {
                out.viol.push(vr);
            }
        }
        if let (Some(so), None) = (&opts.state_opts, &state_skip) {
            crate::contain::mark(1, root as u32, &path, None);
            let mut so = *so;
            if let Some(lim) = opts.heavy_depth_limit {
                if self.states[id as usize].depth > lim {
                    so.owning = false;
                    so.clone_product = 0;
                    so.trap = false;
                    so.borrow_patterns = false;
                }
            }
            if opts.owning_by_shape && !self.states[id as usize].shape_rep {
                so.owning = false;
            }
            let so = &so;
            let r = check_state(self.ctx, &cfg, &hist, Some(&key), so, &mut out.stats);
            if let Some(m) = r.machinery {
                out.machinery = Some(format!("{m} (history {:?})", hist));
                return out;
            }
            for x in r.viol {
                out.viol.push(VRec { props: x.props, rule: x.rule, detail: x.detail, root, hist: hist.clone(), op: None, mode: "state" });
            }
        }
        let fault_skip = self.skipped(opts, root, &path, None, &[2]).cloned();
        if let Some(sk) = &fault_skip {
            let vr = self.skip_violation(sk, root, &hist, None);
            if vr.props & self.ctx.sel != 0 {
                out.viol.push(vr);
            }
        }
        if let (Some(f), None) = (&opts.extra, &fault_skip) {
            crate::contain::mark(2, root as u32, &path, None);
            let eo = f(self.ctx, &cfg, &hist, &mut out.stats);
            for x in eo.viol {
                if x.rule == "machinery" {
                    out.machinery = Some(format!("{} (history {:?}, op {:?})", x.detail, hist, x.op));
                    return out;
                }
                let mut h = hist.clone();
                h.extend(x.extra_hist);
                out.viol.push(VRec { props: x.props, rule: x.rule, detail: x.detail, root, hist: h, op: x.op, mode: "fault" });
            }
            for (eh, k) in eo.novel {
                let mut h = hist.clone();
                h.extend(eh);
                out.novel.push((h, k));
            }
        }
        if do_transitions && opts.transitions {
            // the reference's own state after this history (C03 history-level rule)
            let ref_pre = if self.ctx.sel & p(3) != 0 {
                self.root_ref.get(root).cloned().flatten().and_then(|start| crate::refmodel::replay(self.ctx.u, start, &path))
            } else {
                None
            };
            for (oi, &op) in self.alpha.iter().enumerate() {
                if let Some(sk) = self.skipped(opts, root, &path, Some(op), &[0]) {
                    let vr = self.skip_violation(sk, root, &hist, Some(op));
                    if vr.props & self.ctx.sel != 0 {
                        out.viol.push(vr);
                    }
                    continue;
                }
                crate::contain::mark(0, root as u32, &path, Some(op));
                let t = run_transition_h(self.ctx, &cfg, &hist, op, Some(&key), ref_pre.as_ref(), &mut out.stats);
                if let Some(m) = t.machinery {
                    out.machinery = Some(format!("{m} (history {:?}, op {:?})", hist, op));
                    return out;
                }
                let violated = t.viol.iter().any(|x| !self.ctx.known_rules.iter().any(|k| k == x.rule));
                if let (Some(diff), false) = (&t.hidden, violated) {
                    let mut h = hist.clone();
                    h.push(op);
                    let mut k = key.to_vec();
                    k.extend_from_slice(crate::faults::HIDDEN_MAGIC_T);
                    k.extend_from_slice(diff);
                    out.novel.push((h, k));
                }
                for x in t.viol {
                    out.viol.push(VRec { props: x.props, rule: x.rule, detail: x.detail, root, hist: hist.clone(), op: Some(op), mode: "transition" });
                }
                if let Some(k) = t.post_key {
                    if !violated && !self.seen.contains_key(&k[..]) {
                        out.new.push((oi as u16, k));
                    }
                }
            }
        }
        crate::contain::idle();
        out
    }

    pub fn run(&mut self, opts: &ExploreOpts) -> ExploreResult {
        crate::contain::set_phase(opts.phase);
        let t0 = Instant::now();
        let mut res = ExploreResult {
            states: 0,
            transitions: 0,
            depth_completed: 0,
            fixpoint: false,
            cap_hit: None,
            stats: Stats::default(),
            violations: vec![],
            machinery: None,
            samples: vec![],
            level_sizes: vec![],
            wall_s: 0.0,
            novel: vec![],
            fault_states: 0,
            known: Default::default(),
        };
        let mut pending_novel: Vec<(usize, Vec<Op>, Vec<u8>)> = vec![];
        // post-fault states are deduplicated as they arrive (the U4 closure of the thorough
        // tier produces billions of them: keeping every one exhausted 62 GB), by a 64-bit
        // hash of the canonical key, and their number is capped - shortest histories come
        // first because the exploration is breadth-first
        let mut novel_hashes: std::collections::HashSet<u64> = std::collections::HashSet::new();
        const NOVEL_CAP: usize = 2_000_000;
        // a step that hung or killed the engine in an earlier attempt and that
        // this property owns is a verdict by itself: report it with its full
        // history and stop
        for sk in opts.skips.iter().filter(|s| s.phase == opts.phase) {
            let root = sk.root as usize;
            if root >= self.roots.len() {
                continue;
            }
            let mut hist = self.roots[root].prefix.clone();
            hist.extend(sk.path.iter().copied());
            let vr = self.skip_violation(sk, root, &hist, sk.op);
            if vr.props & self.ctx.sel != 0 {
                res.violations.push(vr);
            }
        }
        if !res.violations.is_empty() {
            res.cap_hit = Some("stopped: a step that hangs or kills the engine is itself a violation of this property".into());
            // the states / steps judged here were executed by the previous attempt
            res.states = res.violations.len();
            res.transitions = res.violations.len() as u64;
            res.stats.transitions = res.transitions;
            res.stats.executions = res.transitions;
            res.samples = res.violations.iter().map(|v| (v.root, v.hist.clone())).collect();
            res.wall_s = t0.elapsed().as_secs_f64();
            return res;
        }
        let max_depth = opts.depth_cap.map(|c| c.min(opts.max_depth)).unwrap_or(opts.max_depth);
        // the reference's own state after each root's prefix
        self.root_ref = self
            .roots
            .iter()
            .map(|r| if self.ctx.sel & p(3) != 0 { crate::refmodel::replay(self.ctx.u, (vec![], r.cfg.limit), &r.prefix) } else { None })
            .collect();
        // roots
        let mut frontier: Vec<u32> = vec![];
        for (ri, r) in self.roots.iter().enumerate() {
            if let Some(sk) = opts.skips.iter().find(|s| s.kind == 3 && s.phase == opts.phase && s.root as usize == ri) {
                // building this root killed or hung the engine in an earlier attempt
                let crash = !sk.reason.contains("no progress");
                let props = if crash { p(6) | p(7) | p(4) } else { p(2) | p(4) };
                if props & self.ctx.sel != 0 {
                    res.violations.push(VRec {
                        props,
                        rule: if crash { "containment.crash" } else { "containment.hang" },
                        detail: format!("building this state: {}", sk.reason),
                        root: ri,
                        hist: r.prefix.clone(),
                        op: None,
                        mode: "state",
                    });
                }
                continue;
            }
            crate::types::reg_reset();
            crate::contain::mark(3, ri as u32, &[], None);
            let ex = rebuild(self.ctx.u, &r.cfg, &r.prefix);
            match snapshot(ex.cr(), r.cfg.hk) {
                Err(why) => {
                    res.machinery = Some(format!("root {} does not validate: {why}", r.label));
                    std::mem::forget(ex);
                    return res;
                }
                Ok(s) => {
                    let k: Arc<[u8]> = s.key.into();
                    let k_seen: Arc<[u8]> = if opts.distinct_roots {
                        let mut v = k.to_vec();
                        v.extend_from_slice(b"#root");
                        v.extend_from_slice(&(ri as u64).to_le_bytes());
                        v.into()
                    } else {
                        k.clone()
                    };
                    if !self.seen.contains_key(&k_seen) {
                        let id = self.states.len() as u32;
                        let rep = self.shapes.insert(crate::state::shape_of(&k));
                        self.states.push(StateRec { parent: u32::MAX, op: 0, root: ri as u32, depth: 0, shape_rep: rep });
                        self.keys.push(k.clone());
                        self.seen.insert(k_seen, id);
                        frontier.push(id);
                    }
                }
            }
        }
        crate::contain::idle();
        let mut depth = 0usize;
        while !frontier.is_empty() {
            res.level_sizes.push(frontier.len());
            let do_transitions = depth < max_depth;
            let mut next = vec![];
            let mut stop = false;
            let mut wall_stop = false;
            // A level is worked off in chunks (in frontier order, so the merge stays deterministic):
            // with the fault scans every expanded state hands back up to ~1 500 post-fault states,
            // and a level of the 4-key closure has millions of states.
            const CHUNK: usize = 4096;
            let mut done_in_level = 0usize;
            'chunks: for chunk in frontier.chunks(CHUNK) {
            let outs = self.parallel(chunk, opts, do_transitions);
            done_in_level += chunk.len();
            for (fi, out) in outs.into_iter().enumerate() {
                let Some(out) = out else { continue };
                res.stats.merge(&out.stats);
                if let Some(m) = out.machinery {
                    res.machinery = Some(m);
                    stop = true;
                    break 'chunks;
                }
                for x in out.viol {
                    if self.ctx.known_rules.iter().any(|k| k == x.rule) {
                        let e = res.known.entry(x.rule).or_insert((0, x.clone()));
                        e.0 += 1;
                    } else if res.violations.len() < opts.max_violations {
                        res.violations.push(x);
                    }
                }
                let parent = chunk[fi];
                let proot = self.states[parent as usize].root as usize;
                for (h, k) in out.novel {
                    res.fault_states += 1;
                    if pending_novel.len() >= NOVEL_CAP || self.seen.contains_key(&k[..]) {
                        continue;
                    }
                    let hk = {
                        use std::hash::{Hash, Hasher};
                        let mut hs = std::collections::hash_map::DefaultHasher::new();
                        k.hash(&mut hs);
                        hs.finish()
                    };
                    if novel_hashes.insert(hk) {
                        pending_novel.push((proot, h, k));
                    }
                }
                for (oi, k) in out.new {
                    if !self.seen.contains_key(&k[..]) {
                        let id = self.states.len() as u32;
                        let k: Arc<[u8]> = k.into();
                        let rep = self.shapes.insert(crate::state::shape_of(&k));
                        self.states.push(StateRec { parent, op: oi, root: self.states[parent as usize].root, depth: (depth + 1) as u16, shape_rep: rep });
                        self.keys.push(k.clone());
                        self.seen.insert(k, id);
                        next.push(id);
                    }
                }
            }
            if done_in_level < frontier.len() && (t0.elapsed().as_secs_f64() > opts.wall_cap_s || res.violations.len() >= opts.max_violations) {
                wall_stop = true;
                break 'chunks;
            }
            }
            if stop {
                break;
            }
            if wall_stop {
                res.cap_hit = Some(if res.violations.len() >= opts.max_violations {
                    "violation cap reached; exploration stopped early".into()
                } else {
                    format!("wall-clock cap {} s hit at depth {} after expanding {} of the {} states of that level", opts.wall_cap_s, depth, done_in_level, frontier.len())
                });
                break;
            }
            if !do_transitions {
                res.cap_hit = Some(if opts.depth_cap.is_some() && max_depth < opts.max_depth {
                    format!("gave up at depth {} after repeated hangs / crashes of the code under test at that depth ({} unexpanded states)", max_depth, frontier.len())
                } else {
                    format!("depth bound {} reached with {} unexpanded states (state checks were still run on them)", opts.max_depth, frontier.len())
                });
                break;
            }
            depth += 1;
            res.depth_completed = depth;
            frontier = next;
            if res.violations.len() >= opts.max_violations {
                res.cap_hit = Some("violation cap reached; exploration stopped early".into());
                break;
            }
            if self.states.len() > opts.max_states {
                res.cap_hit = Some(format!("state cap {} exceeded at depth {}", opts.max_states, depth));
                break;
            }
            if t0.elapsed().as_secs_f64() > opts.wall_cap_s {
                res.cap_hit = Some(format!("wall-clock cap {} s hit after completing depth {}", opts.wall_cap_s, depth));
                break;
            }
        }
        if frontier.is_empty() && res.cap_hit.is_none() && res.machinery.is_none() {
            res.fixpoint = true;
        }
        res.states = self.states.len();
        res.transitions = res.stats.transitions;
        {
            let mut ns: std::collections::HashSet<Vec<u8>> = std::collections::HashSet::new();
            for (r, h, k) in pending_novel {
                if !self.seen.contains_key(&k[..]) && ns.insert(k.clone()) {
                    res.novel.push((r, h, k));
                }
            }
        }
        // samples: a few witness histories spread over the state set
        let n = self.states.len();
        if n > 0 {
            let picks = [0usize, n / 7, n / 3, n / 2, (2 * n) / 3, n - 1];
            let mut done = std::collections::BTreeSet::new();
            for p in picks {
                if done.insert(p) {
                    res.samples.push(self.history(p as u32));
                }
            }
        }
        res.wall_s = t0.elapsed().as_secs_f64();
        res
    }

    fn parallel(&self, frontier: &[u32], opts: &ExploreOpts, do_transitions: bool) -> Vec<Option<WorkOut>> {
        let n = frontier.len();
        let slots: Vec<Mutex<Option<WorkOut>>> = (0..n).map(|_| Mutex::new(None)).collect();
        let next = AtomicUsize::new(0);
        let abort = AtomicBool::new(false);
        let nthreads = opts.threads.max(1).min(n.max(1));
        std::thread::scope(|s| {
            // small stacks on purpose: the cache has no business recursing over its
            // entries; a linear recursion over a 1000+ entry seed overflows 256 KiB
            // and is attributed as a crash of that step
            let stack_kb: usize = std::env::var("LRUMC_STACK_KB").ok().and_then(|v| v.parse().ok()).unwrap_or(256);
            for _ in 0..nthreads {
                let _ = std::thread::Builder::new().stack_size(stack_kb * 1024).spawn_scoped(s, || loop {
                    if abort.load(Ordering::Relaxed) {
                        break;
                    }
                    let i = next.fetch_add(1, Ordering::Relaxed);
                    if i >= n {
                        break;
                    }
                    let out = self.expand(frontier[i], opts, do_transitions);
                    if out.machinery.is_some() {
                        abort.store(true, Ordering::Relaxed);
                    }
                    *slots[i].lock().unwrap() = Some(out);
                });
            }
        });
        slots.into_iter().map(|m| m.into_inner().unwrap()).collect()
    }
}
