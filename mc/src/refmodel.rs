//! The reference semantics (DESIGN.md 3.10): a Vec in recency order plus a
//! limit. Written from the property statements; contains no hash table, no
//! pointers, no capacity arithmetic.

use crate::ops::*;
use crate::state::Obs;

#[derive(Clone, PartialEq, Eq, Debug)]
pub struct RE {
    pub id: u32,
    pub kheap: usize,
    pub kserial: u64,
    pub vheap: usize,
    pub vserial: u64,
}

impl RE {
    pub fn size(&self, e: usize) -> usize {
        e + self.kheap + self.vheap
    }
    pub fn ko(&self) -> KO {
        KO { id: self.id, heap: self.kheap, serial: self.kserial }
    }
    pub fn vo(&self) -> VO {
        VO { heap: self.vheap, serial: self.vserial }
    }
}

#[derive(Clone, Debug)]
pub struct RefStep {
    pub ret: Ret,
    /// expected contents LRU -> MRU
    pub post: Vec<RE>,
    pub limit: usize,
    /// entries the operation was asked to remove (incl. replaced / overflowing)
    pub explicit: Vec<RE>,
    /// entries evicted to make room, oldest first
    pub evicted: Vec<RE>,
    /// expected value serials passed to the mutate closure
    pub mut_calls: Vec<u64>,
    /// expected (key serial, value serial) predicate invocations in order
    pub pred_calls: Vec<(u64, u64)>,
    /// the operation is one of the promoting ones and its key was present
    pub promoted: Option<u32>,
    /// insertion classification facts for outcome classes
    pub class: &'static str,
}

pub fn to_ref(o: &Obs) -> Vec<RE> {
    o.entries
        .iter()
        .map(|x| RE { id: x.id, kheap: x.kheap, kserial: x.kserial, vheap: x.vheap, vserial: x.vserial })
        .collect()
}

/// sums are taken in u128: transient totals of a history may exceed usize
fn total(l: &[RE], e: usize) -> u128 {
    l.iter().map(|x| x.size(e) as u128).sum()
}

/// drops from the LRU end while the sum exceeds `room`
fn evict(l: &mut Vec<RE>, room: usize, e: usize) -> Vec<RE> {
    let mut t = total(l, e);
    let mut n = 0;
    while t > room as u128 && n < l.len() {
        t -= l[n].size(e) as u128;
        n += 1;
    }
    l.drain(..n).collect()
}

fn take(l: &mut Vec<RE>, id: u32) -> Option<RE> {
    l.iter().position(|x| x.id == id).map(|i| l.remove(i))
}

pub struct Incoming {
    pub kserial: u64,
    pub vserial: u64,
    /// Some(h): the key instance that ends up stored has this size estimate
    /// (an implementation may keep the old key instance when an equal key is
    /// inserted again; which one is kept is not part of any statement, but
    /// the sizes follow the instance that is kept)
    pub kheap_override: Option<usize>,
}

/// expected panic marker for documented panics
pub const EXPECTED_PANIC: &str = "<documented panic>";

pub fn step(u: &Universe, pre: &Obs, op: Op, inc: &Incoming) -> RefStep {
    let e = u.e;
    let mut l = to_ref(pre);
    let limit = pre.limit;
    let mut r = RefStep {
        ret: Ret::Unit,
        post: vec![],
        limit,
        explicit: vec![],
        evicted: vec![],
        mut_calls: vec![],
        pred_calls: vec![],
        promoted: None,
        class: "",
    };
    let cur: usize = usize::try_from(total(&l, e)).unwrap_or(usize::MAX);
    let mk_in = |k: u16, kheap: usize, vheap: usize| RE {
        id: k as u32,
        kheap: inc.kheap_override.unwrap_or(kheap),
        kserial: inc.kserial,
        vheap,
        vserial: inc.vserial,
    };
    let do_insert = |r: &mut RefStep, l: &mut Vec<RE>, k: u16, kheap: usize, vheap: usize| {
        let n = mk_in(k, kheap, vheap);
        let s = n.size(e);
        if s > limit {
            r.ret = Ret::InsertTooLarge { k: n.ko(), v: n.vo(), entry_size: s, max_size: limit };
            r.class = "insert:too-large";
        } else {
            let old = take(l, k as u32);
            let without_credit = cur.checked_add(s).map(|t| t > limit).unwrap_or(true);
            r.evicted = evict(l, limit - s, e);
            r.class = match (&old, r.evicted.len(), without_credit) {
                (Some(_), 0, true) => "insert:replace-credit-decisive",
                (Some(_), 0, false) => "insert:replace",
                (Some(_), _, _) => "insert:replace+evict",
                (None, 0, _) if cur.checked_add(s) == Some(limit) => "insert:exact-fit",
                (None, 0, _) => "insert:fresh",
                (None, 1, _) => "insert:evict1",
                (None, 2, _) => "insert:evict2",
                (None, _, _) => "insert:evict3+",
            };
            r.ret = Ret::InsertOk(old.as_ref().map(|o| o.vo()));
            if let Some(o) = old {
                r.explicit.push(o);
            }
            l.push(n);
            r.promoted = Some(k as u32);
        }
    };
    match op {
        Op::Insert { k, h } => do_insert(&mut r, &mut l, k, u.ins_key_heap(k as u32, h), u.vheaps[h as usize]),
        Op::InsertRaw { k, vheap } => do_insert(&mut r, &mut l, k, u.key_heap(k as u32), vheap as usize),
        Op::TryInsert { k, h } => {
            let n = mk_in(k, u.ins_key_heap(k as u32, h), u.vheaps[h as usize]);
            let s = n.size(e);
            let present = l.iter().any(|x| x.id == k as u32);
            let too_large = s > limit;
            let would_eject = !too_large && s > limit.saturating_sub(cur);
            r.class = match (too_large, s > limit.saturating_sub(cur), present) {
                (true, _, true) => "try:too-large+would-eject+occupied",
                (true, _, false) => "try:too-large+would-eject",
                (false, true, true) => "try:would-eject+occupied",
                (false, true, false) => "try:would-eject",
                (false, false, true) => "try:occupied",
                (false, false, false) if s == limit.saturating_sub(cur) => "try:ok-exact-fit",
                (false, false, false) => "try:ok",
            };
            if too_large {
                r.ret = Ret::TryTooLarge { k: n.ko(), v: n.vo(), entry_size: s, max_size: limit };
            } else if would_eject {
                r.ret =
                    Ret::TryWouldEject { k: n.ko(), v: n.vo(), entry_size: s, free_memory: limit.saturating_sub(cur) };
            } else if present {
                r.ret = Ret::TryOccupied { k: n.ko(), v: n.vo() };
            } else {
                r.ret = Ret::TryOk;
                l.push(n);
                r.promoted = Some(k as u32);
            }
        }
        Op::Get { k, .. } | Op::GetEntry { k, .. } | Op::Touch { k, .. } => {
            let x = take(&mut l, k as u32);
            r.ret = match op {
                Op::Get { .. } => Ret::Val(x.as_ref().map(|x| x.vo())),
                Op::GetEntry { .. } => Ret::Entry(x.as_ref().map(|x| (x.ko(), x.vo()))),
                _ => Ret::Unit,
            };
            if let Some(x) = x {
                l.push(x);
                r.promoted = Some(k as u32);
            }
        }
        Op::GetLru => {
            if l.is_empty() {
                r.ret = Ret::Entry(None);
            } else {
                let x = l.remove(0);
                r.ret = Ret::Entry(Some((x.ko(), x.vo())));
                r.promoted = Some(x.id);
                l.push(x);
            }
        }
        Op::Remove { k, .. } => {
            let x = take(&mut l, k as u32);
            r.ret = Ret::Val(x.as_ref().map(|x| x.vo()));
            r.explicit.extend(x);
        }
        Op::RemoveEntry { k, .. } => {
            let x = take(&mut l, k as u32);
            r.ret = Ret::Entry(x.as_ref().map(|x| (x.ko(), x.vo())));
            r.explicit.extend(x);
        }
        Op::RemoveLru => {
            let x = if l.is_empty() { None } else { Some(l.remove(0)) };
            r.ret = Ret::Entry(x.as_ref().map(|x| (x.ko(), x.vo())));
            r.explicit.extend(x);
        }
        Op::RemoveMru => {
            let x = l.pop();
            r.ret = Ret::Entry(x.as_ref().map(|x| (x.ko(), x.vo())));
            r.explicit.extend(x);
        }
        Op::Clear => {
            r.explicit = std::mem::take(&mut l);
        }
        Op::SetMax { .. } | Op::SetMaxRaw { .. } => {
            let nl = match op {
                Op::SetMax { l } => u.limits[l as usize],
                Op::SetMaxRaw { v } => v,
                _ => unreachable!(),
            };
            r.evicted = evict(&mut l, nl, e);
            r.limit = nl;
            r.class = match r.evicted.len() {
                0 if total(&l, e) == nl as u128 && !l.is_empty() => "set_max:exact-fit",
                0 => "set_max:evict0",
                1 => "set_max:evict1",
                2 => "set_max:evict2",
                _ => "set_max:evict3+",
            };
        }
        Op::Mutate { k, h, .. } => {
            let nh = u.vheaps[h as usize];
            match l.iter().position(|x| x.id == k as u32) {
                None => {
                    r.ret = Ret::MutOk(None);
                    r.class = "mutate:absent";
                }
                Some(i) => {
                    let n = l.len();
                    let posname = if n == 1 {
                        "only"
                    } else if i == 0 {
                        "lru"
                    } else if i == n - 1 {
                        "mru"
                    } else {
                        "middle"
                    };
                    let mut x = l.remove(i);
                    r.mut_calls.push(x.vserial);
                    let old_s = x.size(e);
                    x.vheap = nh;
                    let new_s = x.size(e);
                    if new_s > old_s && new_s > limit {
                        r.ret = Ret::MutTooLarge { k: x.ko(), v: x.vo(), old: old_s, new: new_s, max: limit };
                        r.explicit.push(x);
                        r.class = match posname {
                            "only" => "mutate:overflow@only",
                            "lru" => "mutate:overflow@lru",
                            "mru" => "mutate:overflow@mru",
                            _ => "mutate:overflow@middle",
                        };
                    } else {
                        r.ret = Ret::MutOk(Some(mut_token(x.vserial, nh)));
                        r.promoted = Some(x.id);
                        l.push(x);
                        if new_s > old_s {
                            r.evicted = evict(&mut l, limit, e);
                        }
                        r.class = match (new_s.cmp(&old_s), r.evicted.len(), posname) {
                            (std::cmp::Ordering::Less, _, "only") => "mutate:shrink@only",
                            (std::cmp::Ordering::Less, _, "lru") => "mutate:shrink@lru",
                            (std::cmp::Ordering::Less, _, "mru") => "mutate:shrink@mru",
                            (std::cmp::Ordering::Less, _, _) => "mutate:shrink@middle",
                            (std::cmp::Ordering::Equal, _, "only") => "mutate:equal@only",
                            (std::cmp::Ordering::Equal, _, "lru") => "mutate:equal@lru",
                            (std::cmp::Ordering::Equal, _, "mru") => "mutate:equal@mru",
                            (std::cmp::Ordering::Equal, _, _) => "mutate:equal@middle",
                            (_, 0, "only") => "mutate:grow-fits@only",
                            (_, 0, "lru") => "mutate:grow-fits@lru",
                            (_, 0, "mru") => "mutate:grow-fits@mru",
                            (_, 0, _) => "mutate:grow-fits@middle",
                            (_, 1, "lru") => "mutate:grow-evict1@lru",
                            (_, 1, "mru") => "mutate:grow-evict1@mru",
                            (_, 1, _) => "mutate:grow-evict1@middle",
                            (_, _, "lru") => "mutate:grow-evict2+@lru",
                            (_, _, "mru") => "mutate:grow-evict2+@mru",
                            (_, _, _) => "mutate:grow-evict2+@middle",
                        };
                    }
                }
            }
        }
        Op::Retain { mask } => {
            r.pred_calls = l.iter().map(|x| (x.kserial, x.vserial)).collect();
            let (keep, gone): (Vec<RE>, Vec<RE>) =
                l.into_iter().partition(|x| (mask >> (x.id % 16)) & 1 == 1);
            l = keep;
            r.explicit = gone;
        }
        Op::RetainMod { m, r: rr } => {
            r.pred_calls = l.iter().map(|x| (x.kserial, x.vserial)).collect();
            let (keep, gone): (Vec<RE>, Vec<RE>) =
                l.into_iter().partition(|x| x.id % (m as u32) != rr as u32);
            l = keep;
            r.explicit = gone;
        }
        Op::Reserve { a } => {
            let add = u.reserve_args[a as usize];
            // len + additional overflowing usize, or a table size no allocator
            // can provide: documented panic ("Panics if the new capacity
            // exceeds isize::MAX bytes"), state unchanged.
            if add >= usize::MAX / 2 {
                r.ret = Ret::Panicked(EXPECTED_PANIC.into());
            }
        }
        Op::TryReserve { a } => {
            let add = u.reserve_args[a as usize];
            r.ret = if add >= usize::MAX / 2 {
                Ret::ReserveErr { overflow: true }
            } else {
                Ret::ReserveOk
            };
        }
        Op::ShrinkTo { .. } | Op::ShrinkToFit | Op::CloneSwap | Op::ArmFuel { .. } => {}
        Op::Peek { k, .. } => {
            r.ret = Ret::Val(l.iter().find(|x| x.id == k as u32).map(|x| x.vo()));
        }
        Op::PeekEntry { k, .. } => {
            r.ret = Ret::Entry(l.iter().find(|x| x.id == k as u32).map(|x| (x.ko(), x.vo())));
        }
        Op::Contains { k, .. } => {
            r.ret = Ret::Bool(l.iter().any(|x| x.id == k as u32));
        }
        Op::DebugFmt => {
            r.ret = Ret::Text(format!(
                "{{{}}}",
                l.iter().map(|x| format!("k{}: v{}", x.id, x.vheap)).collect::<Vec<_>>().join(", ")
            ));
        }
        Op::DrainForget { n, bits } => {
            // a leaked drain may leak what it did not yield; what is specified
            // is only that the yielded items come off the two ends in order
            let mut out = vec![];
            let mut rest: std::collections::VecDeque<RE> = l.drain(..).collect();
            for i in 0..n {
                let x = if (bits >> i) & 1 == 1 { rest.pop_front() } else { rest.pop_back() };
                out.push(x.map(|x| (x.ko(), x.vo())));
            }
            r.ret = Ret::Drained(out);
            r.explicit = to_ref(pre);
        }
        Op::Drain { pat } => {
            let mut out = vec![];
            let mut rest: std::collections::VecDeque<RE> = l.drain(..).collect();
            for f in &u.drain_pats[pat as usize] {
                let x = if *f { rest.pop_front() } else { rest.pop_back() };
                out.push(x.map(|x| (x.ko(), x.vo())));
            }
            r.ret = Ret::Drained(out);
            r.explicit = to_ref(pre);
        }
    }
    r.post = l;
    r
}


/// The reference's own state after a whole history (not re-synchronised with
/// what the implementation reports): contents in the order of last access,
/// and the limit. Serials are not tracked (0). None if the history contains
/// steps the reference does not define (fault injection).
pub fn replay(u: &Universe, start: (Vec<RE>, usize), hist: &[Op]) -> Option<(Vec<RE>, usize)> {
    let (mut l, mut limit) = start;
    for &op in hist {
        if matches!(op, Op::ArmFuel { .. } | Op::DrainForget { .. }) {
            return None;
        }
        let obs = Obs {
            limit,
            cap: 0,
            len: l.len(),
            cur: usize::try_from(l.iter().map(|x| x.size(u.e) as u128).sum::<u128>()).unwrap_or(usize::MAX),
            is_empty: l.is_empty(),
            entries: l
                .iter()
                .map(|x| crate::state::EObs { id: x.id, kheap: x.kheap, kserial: x.kserial, vheap: x.vheap, vserial: x.vserial, kaddr: 0, vaddr: 0 })
                .collect(),
            overrun: false,
        };
        let r = step(u, &obs, op, &Incoming { kserial: 0, vserial: 0, kheap_override: None });
        l = r.post;
        limit = r.limit;
    }
    Some((l, limit))
}
