//! Containment (DESIGN.md 3.8): every worker publishes the transition it is
//! about to execute in an mmap'ed marker file and bumps a heartbeat. A monitor
//! thread turns a stalled worker into a "hang" record and exits the process
//! with status 3; a fatal signal records the crashing worker's slot and lets
//! the process die. The driver restarts the (deterministic) exploration with
//! the recorded transition on a skip list; when the explorer reaches a skipped
//! transition it does not execute it but reports it with its full history.

use crate::ops::*;
use serde_json::{json, Value};
use std::cell::Cell;
use std::sync::atomic::{AtomicI64, AtomicU64, AtomicUsize, Ordering};

pub const NSLOTS: usize = 64;
const SLOT_BYTES: usize = 8192;
const HEADER: usize = 64;
const MAX_OPS: usize = (SLOT_BYTES - 64) / std::mem::size_of::<Op>();

static BASE: AtomicUsize = AtomicUsize::new(0);
static NEXT: AtomicUsize = AtomicUsize::new(0);
static PHASE: AtomicU64 = AtomicU64::new(0);
static TICKS: [AtomicU64; NSLOTS] = [const { AtomicU64::new(0) }; NSLOTS];
static ACTIVE: [AtomicU64; NSLOTS] = [const { AtomicU64::new(0) }; NSLOTS];
static SLOT_FREE: [AtomicU64; NSLOTS] = [const { AtomicU64::new(1) }; NSLOTS];
static CRASH_SLOT: AtomicI64 = AtomicI64::new(-1);
/// CPU-time clock of the worker thread that owns the slot (pthread_getcpuclockid), -1 if unknown
static CLOCKID: [AtomicI64; NSLOTS] = [const { AtomicI64::new(-1) }; NSLOTS];

thread_local! {
    static MY: Cell<usize> = const { Cell::new(usize::MAX) };
    static GUARD: Guard = const { Guard };
}

struct Guard;
impl Drop for Guard {
    fn drop(&mut self) {
        let _ = MY.try_with(|c| {
            let i = c.get();
            if i != usize::MAX {
                ACTIVE[i].store(0, Ordering::SeqCst);
                CLOCKID[i].store(-1, Ordering::SeqCst);
                SLOT_FREE[i].store(1, Ordering::SeqCst);
                c.set(usize::MAX);
            }
        });
    }
}

/// Creates the marker file. Call once at start-up.
pub fn init(path: &str) -> bool {
    unsafe {
        let cpath = std::ffi::CString::new(path).unwrap();
        let fd = libc::open(cpath.as_ptr(), libc::O_RDWR | libc::O_CREAT | libc::O_TRUNC, 0o644);
        if fd < 0 {
            return false;
        }
        let len = HEADER + NSLOTS * SLOT_BYTES;
        if libc::ftruncate(fd, len as libc::off_t) != 0 {
            return false;
        }
        let p = libc::mmap(std::ptr::null_mut(), len, libc::PROT_READ | libc::PROT_WRITE, libc::MAP_SHARED, fd, 0);
        libc::close(fd);
        if p == libc::MAP_FAILED {
            return false;
        }
        let hdr = p as *mut i64;
        *hdr = -1; // crashed slot
        *hdr.add(1) = 0; // signal
        BASE.store(p as usize, Ordering::SeqCst);
    }
    install_crash_handlers();
    true
}

pub fn set_phase(idx: u64) {
    PHASE.store(idx, Ordering::SeqCst);
}

fn my_slot() -> Option<usize> {
    let i = MY.with(|c| c.get());
    if i != usize::MAX {
        return Some(i);
    }
    if BASE.load(Ordering::Relaxed) == 0 {
        return None;
    }
    GUARD.with(|_| {});
    for (i, f) in SLOT_FREE.iter().enumerate() {
        if f.compare_exchange(1, 0, Ordering::SeqCst, Ordering::SeqCst).is_ok() {
            MY.with(|c| c.set(i));
            let mut cid: libc::clockid_t = 0;
            let ok = unsafe { libc::pthread_getcpuclockid(libc::pthread_self(), &mut cid) } == 0;
            CLOCKID[i].store(if ok { cid as i64 } else { -1 }, Ordering::SeqCst);
            NEXT.fetch_max(i + 1, Ordering::SeqCst);
            return Some(i);
        }
    }
    None
}

/// kind: 0 = transition, 1 = state checks, 2 = fault scan
pub fn mark(kind: u8, root: u32, path: &[Op], op: Option<Op>) {
    let Some(i) = my_slot() else { return };
    let base = BASE.load(Ordering::Relaxed);
    unsafe {
        let p = (base + HEADER + i * SLOT_BYTES) as *mut u8;
        let n = path.len().min(MAX_OPS - 1);
        let w = p as *mut u64;
        *w = 0; // invalidate while writing
        *w.add(1) = PHASE.load(Ordering::Relaxed);
        *w.add(2) = root as u64;
        *w.add(3) = kind as u64;
        *w.add(4) = n as u64;
        *w.add(5) = op.is_some() as u64;
        *w.add(6) = (path.len() > n) as u64;
        let ops = p.add(64) as *mut Op;
        std::ptr::copy_nonoverlapping(path.as_ptr(), ops, n);
        if let Some(o) = op {
            std::ptr::write(ops.add(n), o);
        }
        *w = 1;
    }
    ACTIVE[i].store(1, Ordering::Relaxed);
    TICKS[i].fetch_add(1, Ordering::Relaxed);
}

/// kind >= 4: a record of another engine (4 = instvar); `a` and the bytes are
/// that engine's own encoding of what it is about to execute.
pub fn mark_raw(kind: u8, a: u64, bytes: &[u8]) {
    let Some(i) = my_slot() else { return };
    let base = BASE.load(Ordering::Relaxed);
    unsafe {
        let p = (base + HEADER + i * SLOT_BYTES) as *mut u8;
        let n = bytes.len().min(SLOT_BYTES - 64);
        let w = p as *mut u64;
        *w = 0;
        *w.add(1) = PHASE.load(Ordering::Relaxed);
        *w.add(2) = a;
        *w.add(3) = kind as u64;
        *w.add(4) = n as u64;
        *w.add(5) = 0;
        *w.add(6) = 0;
        std::ptr::copy_nonoverlapping(bytes.as_ptr(), p.add(64), n);
        *w = 1;
    }
    ACTIVE[i].store(1, Ordering::Relaxed);
    TICKS[i].fetch_add(1, Ordering::Relaxed);
}

/// Called at the start of every execution on the real cache.
#[inline]
pub fn heartbeat() {
    let i = MY.with(|c| c.get());
    if i != usize::MAX {
        TICKS[i].fetch_add(1, Ordering::Relaxed);
    }
}

/// The worker is between units of work (not executing subject code).
pub fn idle() {
    let i = MY.with(|c| c.get());
    if i != usize::MAX {
        ACTIVE[i].store(0, Ordering::Relaxed);
    }
}

fn slot_json(i: usize, u: &Universe) -> Option<Value> {
    let base = BASE.load(Ordering::Relaxed);
    if base == 0 {
        return None;
    }
    unsafe {
        let p = (base + HEADER + i * SLOT_BYTES) as *const u8;
        let w = p as *const u64;
        if *w != 1 {
            return None;
        }
        let n = *w.add(4) as usize;
        if *w.add(3) >= 4 {
            let bytes: Vec<u8> = (0..n).map(|k| *p.add(64 + k)).collect();
            let a = *w.add(2);
            let raw = format!("{a}:{}", bytes.iter().map(|b| format!("{b:02x}")).collect::<String>());
            return Some(json!({
                "phase": *w.add(1),
                "root": a,
                "kind": *w.add(3),
                "truncated": false,
                "path": [],
                "op": null,
                "raw": raw,
                "readable": crate::instvar::describe_raw(a, &bytes),
            }));
        }
        let ops = p.add(64) as *const Op;
        let path: Vec<Op> = (0..n).map(|k| std::ptr::read(ops.add(k))).collect();
        let op = if *w.add(5) != 0 { Some(std::ptr::read(ops.add(n))) } else { None };
        Some(json!({
            "phase": *w.add(1),
            "root": *w.add(2),
            "kind": *w.add(3),
            "truncated": *w.add(6) != 0,
            "path": path.iter().map(op_to_json).collect::<Vec<_>>(),
            "op": op.as_ref().map(op_to_json),
            "readable": path.iter().map(|o| o.show(u)).chain(op.iter().map(|o| format!("{}   // <- here", o.show(u)))).collect::<Vec<_>>(),
        }))
    }
}

/// CPU time consumed so far by the thread owning slot `i` (None if unknown).
fn thread_cpu_s(i: usize) -> Option<f64> {
    let cid = CLOCKID[i].load(Ordering::Relaxed);
    if cid == -1 {
        return None;
    }
    let mut ts = libc::timespec { tv_sec: 0, tv_nsec: 0 };
    if unsafe { libc::clock_gettime(cid as libc::clockid_t, &mut ts) } != 0 {
        return None;
    }
    Some(ts.tv_sec as f64 + ts.tv_nsec as f64 * 1e-9)
}

/// Monitor loop: returns only by exiting the process when a worker stalls.
///
/// The deadline is measured in **CPU time of the stalled worker thread**, so a
/// machine that is busy with other work (and schedules the worker rarely) cannot
/// turn a slow but terminating transition into a "hang": the worker has to burn
/// `deadline_s` seconds of CPU inside one unit of work without a heartbeat. A
/// wall-clock fallback (30 x the deadline, at least 120 s) covers a worker that
/// blocks without consuming CPU.
pub fn monitor(deadline_s: f64, hang_file: String, u: Universe, stop: &std::sync::atomic::AtomicBool) {
    let mut last = [0u64; NSLOTS];
    let mut since = [std::time::Instant::now(); NSLOTS];
    let mut cpu0 = [None::<f64>; NSLOTS];
    let wall_fallback = (deadline_s * 30.0).max(120.0);
    while !stop.load(Ordering::Relaxed) {
        std::thread::sleep(std::time::Duration::from_millis(200));
        let n = NEXT.load(Ordering::Relaxed).min(NSLOTS);
        for i in 0..n {
            let t = TICKS[i].load(Ordering::Relaxed);
            if t != last[i] || ACTIVE[i].load(Ordering::Relaxed) == 0 {
                last[i] = t;
                since[i] = std::time::Instant::now();
                cpu0[i] = thread_cpu_s(i);
                continue;
            }
            let wall = since[i].elapsed().as_secs_f64();
            if wall <= deadline_s {
                continue;
            }
            let (stalled, how) = match (cpu0[i], thread_cpu_s(i)) {
                (Some(a), Some(b)) => (b - a > deadline_s || wall > wall_fallback, format!("{:.1} s of CPU time, {:.1} s wall", b - a, wall)),
                _ => (wall > wall_fallback, format!("{:.1} s wall", wall)),
            };
            if stalled {
                if let Some(mut j) = slot_json(i, &u) {
                    j["reason"] = json!(format!("no progress for {how} (operation does not terminate)"));
                    let _ = std::fs::write(&hang_file, serde_json::to_string_pretty(&j).unwrap());
                }
                eprintln!("lrumc: a worker made no progress for {how}; recording the transition and exiting for a restart");
                unsafe { libc::_exit(3) };
            }
        }
    }
}

extern "C" fn on_fatal(sig: libc::c_int, _info: *mut libc::siginfo_t, _ctx: *mut libc::c_void) {
    record_crash(sig);
    unsafe {
        libc::signal(sig, libc::SIG_DFL);
        libc::raise(sig);
    }
}

/// Records which worker slot was executing when a fatal signal arrived.
pub fn record_crash(sig: libc::c_int) {
    let i = MY.try_with(|c| c.get()).unwrap_or(usize::MAX);
    let base = BASE.load(Ordering::Relaxed);
    if base != 0 && CRASH_SLOT.compare_exchange(-1, i as i64, Ordering::SeqCst, Ordering::SeqCst).is_ok() {
        unsafe {
            let hdr = base as *mut i64;
            *hdr = if i == usize::MAX { -2 } else { i as i64 };
            *hdr.add(1) = sig as i64;
            libc::msync(base as *mut libc::c_void, HEADER, libc::MS_SYNC);
        }
    }
}

fn install_crash_handlers() {
    unsafe {
        for sig in [libc::SIGABRT, libc::SIGBUS, libc::SIGILL, libc::SIGFPE] {
            let mut sa: libc::sigaction = std::mem::zeroed();
            sa.sa_sigaction = on_fatal as usize;
            sa.sa_flags = libc::SA_SIGINFO | libc::SA_ONSTACK | libc::SA_RESETHAND;
            libc::sigemptyset(&mut sa.sa_mask);
            libc::sigaction(sig, &sa, std::ptr::null_mut());
        }
    }
    crate::trap::install_handler_pub();
}

/// Decodes the marker file of a dead process: the crashing worker's record.
pub fn decode(path: &str, u: &Universe) -> Option<Value> {
    let bytes = std::fs::read(path).ok()?;
    if bytes.len() < HEADER + NSLOTS * SLOT_BYTES {
        return None;
    }
    // map the bytes at an aligned address and reuse slot_json
    let layout = std::alloc::Layout::from_size_align(bytes.len(), 4096).ok()?;
    unsafe {
        let p = std::alloc::alloc(layout);
        std::ptr::copy_nonoverlapping(bytes.as_ptr(), p, bytes.len());
        let hdr = p as *const i64;
        let slot = *hdr;
        let sig = *hdr.add(1);
        let old = BASE.swap(p as usize, Ordering::SeqCst);
        let out = if slot >= 0 {
            slot_json(slot as usize, u).map(|mut j| {
                j["reason"] = json!(format!("the process was killed by signal {sig} while executing this"));
                j["signal"] = json!(sig);
                j
            })
        } else {
            None
        };
        BASE.store(old, Ordering::SeqCst);
        std::alloc::dealloc(p, layout);
        out
    }
}

// ---------------------------------------------------------------------------
// Skip list
// ---------------------------------------------------------------------------

#[derive(Clone, Debug)]
pub struct Skip {
    pub phase: u64,
    pub root: u32,
    pub path: Vec<Op>,
    pub op: Option<Op>,
    pub kind: u8,
    pub reason: String,
    /// kind >= 4: the other engine's own record
    pub raw: Option<String>,
}

pub fn load_skips(path: Option<&String>) -> Vec<Skip> {
    let mut out = vec![];
    let Some(path) = path else { return out };
    let Ok(s) = std::fs::read_to_string(path) else { return out };
    let Ok(v) = serde_json::from_str::<Value>(&s) else { return out };
    for e in v.as_array().cloned().unwrap_or_default() {
        let p: Vec<Op> = e["path"].as_array().map(|a| a.iter().filter_map(op_from_json).collect()).unwrap_or_default();
        out.push(Skip {
            phase: e["phase"].as_u64().unwrap_or(0),
            root: e["root"].as_u64().unwrap_or(0) as u32,
            path: p,
            op: op_from_json(&e["op"]),
            kind: e["kind"].as_u64().unwrap_or(0) as u8,
            reason: e["reason"].as_str().unwrap_or("").to_string(),
            raw: e["raw"].as_str().map(|s| s.to_string()),
        });
    }
    out
}
