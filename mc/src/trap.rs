//! Global allocator of the lrumc engine and the MMU write trap (DESIGN.md 3.6).
//!
//! * per-thread bump arena (mmap) that can be switched on while the cache under
//!   test is being built, so that everything the cache owns (the table, the
//!   seal) lives in pages that can be made read-only with mprotect while a
//!   `&self` operation runs; a SIGSEGV handler records a write into those
//!   pages, re-enables writing and resumes, so a violation is reported with
//!   full context instead of killing the process;
//! * failure injection: the n-th allocation of the current thread returns null
//!   (used for try_reserve; infallible allocations would abort, so the window
//!   is kept to the one call under test).

use std::alloc::{GlobalAlloc, Layout, System};
use std::cell::Cell;
use std::sync::atomic::{AtomicUsize, Ordering};

pub const ARENA_SIZE: usize = 64 << 20;
const MAX_ARENAS: usize = 64;

struct Slot {
    base: AtomicUsize,
    /// number of faults inside one of the watched regions
    cache_writes: AtomicUsize,
    /// faults inside the arena but outside the watched regions
    other_writes: AtomicUsize,
    /// tag of the operation running when the first cache write happened
    cur_tag: AtomicUsize,
    first_tag: AtomicUsize,
    first_addr: AtomicUsize,
    /// watched regions: (start, len) x 3
    regions: [AtomicUsize; 6],
    protected_len: AtomicUsize,
    /// 1 while a live thread owns this slot
    in_use: AtomicUsize,
}

#[allow(clippy::declare_interior_mutable_const)]
const SLOT_INIT: Slot = Slot {
    base: AtomicUsize::new(0),
    cache_writes: AtomicUsize::new(0),
    other_writes: AtomicUsize::new(0),
    cur_tag: AtomicUsize::new(0),
    first_tag: AtomicUsize::new(0),
    first_addr: AtomicUsize::new(0),
    regions: [
        AtomicUsize::new(0),
        AtomicUsize::new(0),
        AtomicUsize::new(0),
        AtomicUsize::new(0),
        AtomicUsize::new(0),
        AtomicUsize::new(0),
    ],
    protected_len: AtomicUsize::new(0),
    in_use: AtomicUsize::new(0),
};

static SLOTS: [Slot; MAX_ARENAS] = [SLOT_INIT; MAX_ARENAS];
static NEXT_SLOT: AtomicUsize = AtomicUsize::new(0);

thread_local! {
    static ARENA_ON: Cell<bool> = const { Cell::new(false) };
    static MY_SLOT: Cell<usize> = const { Cell::new(usize::MAX) };
    static SLOT_GUARD: SlotGuard = const { SlotGuard };
    static OFFSET: Cell<usize> = const { Cell::new(0) };
    /// Some(n): the n-th allocation from now fails
    static FAIL_AT: Cell<isize> = const { Cell::new(-1) };
    static ALLOCS: Cell<usize> = const { Cell::new(0) };
}

pub struct TrapAlloc;

/// Releases the thread's arena slot when the thread exits (arenas are reused
/// by later threads; the explorer spawns fresh workers for every level).
struct SlotGuard;
impl Drop for SlotGuard {
    fn drop(&mut self) {
        let _ = MY_SLOT.try_with(|c| {
            let i = c.get();
            if i != usize::MAX {
                SLOTS[i].in_use.store(0, Ordering::SeqCst);
                c.set(usize::MAX);
            }
        });
    }
}

fn in_any_arena(p: usize) -> bool {
    let n = NEXT_SLOT.load(Ordering::Relaxed).min(MAX_ARENAS);
    for s in SLOTS.iter().take(n) {
        let b = s.base.load(Ordering::Relaxed);
        if b != 0 && p >= b && p < b + ARENA_SIZE {
            return true;
        }
    }
    false
}

unsafe impl GlobalAlloc for TrapAlloc {
    unsafe fn alloc(&self, l: Layout) -> *mut u8 {
        let fail = FAIL_AT.try_with(|f| {
            let v = f.get();
            if v >= 0 {
                f.set(v - 1);
            }
            v == 0
        });
        let _ = ALLOCS.try_with(|a| a.set(a.get() + 1));
        if fail.unwrap_or(false) {
            return std::ptr::null_mut();
        }
        let on = ARENA_ON.try_with(|c| c.get()).unwrap_or(false);
        if on {
            let slot = MY_SLOT.with(|c| c.get());
            let base = SLOTS[slot].base.load(Ordering::Relaxed);
            let off = OFFSET.with(|c| c.get());
            let start = (base + off + l.align() - 1) & !(l.align() - 1);
            let end = start + l.size();
            if end <= base + ARENA_SIZE {
                OFFSET.with(|c| c.set(end - base));
                return start as *mut u8;
            }
            // arena exhausted: fall through to the system allocator
        }
        System.alloc(l)
    }
    unsafe fn dealloc(&self, p: *mut u8, l: Layout) {
        if in_any_arena(p as usize) {
            return;
        }
        // quarantine (DESIGN 9.7): while one transition is executed and judged, what the code
        // under test frees is poisoned and held back, so that a later write through a stale
        // pointer is found when the poison is checked, and stale reads see 0xDE bytes
        if l.size() >= 16 {
            let held = QUAR.try_with(|q| {
                let q = &mut *q.get();
                if q.on && q.n < QCAP {
                    std::ptr::write_bytes(p, 0xDE, l.size());
                    q.blocks[q.n] = (p as usize, l.size(), l.align());
                    q.n += 1;
                    true
                } else {
                    false
                }
            });
            if held.unwrap_or(false) {
                return;
            }
        }
        System.dealloc(p, l)
    }
    // realloc: the default (alloc + copy + dealloc) is what is needed here
}

const QCAP: usize = 48;
struct Quar {
    on: bool,
    n: usize,
    blocks: [(usize, usize, usize); QCAP],
}
thread_local! {
    static QUAR: std::cell::UnsafeCell<Quar> = const { std::cell::UnsafeCell::new(Quar { on: false, n: 0, blocks: [(0, 0, 0); QCAP] }) };
}

/// From now on this thread's freed blocks (>= 16 bytes, at most 48 of them) are poisoned
/// and held back instead of being returned to the system allocator.
pub fn quarantine_begin() {
    let _ = quarantine_end();
    QUAR.with(|q| unsafe { (*q.get()).on = true });
}

/// Ends the quarantine: every held block must still be all poison. Returns a description
/// of the first block that was written to after it was freed; frees the blocks.
pub fn quarantine_end() -> Option<String> {
    QUAR.with(|q| unsafe {
        let q = &mut *q.get();
        q.on = false;
        let mut bad = None;
        for i in 0..q.n {
            let (p, size, align) = q.blocks[i];
            let bytes = std::slice::from_raw_parts(p as *const u8, size);
            if bad.is_none() {
                if let Some(off) = bytes.iter().position(|b| *b != 0xDE) {
                    let end = bytes.iter().rposition(|b| *b != 0xDE).unwrap();
                    bad = Some((size, off, end + 1 - off));
                }
            }
            System.dealloc(p as *mut u8, Layout::from_size_align_unchecked(size, align));
        }
        q.n = 0;
        bad.map(|(size, off, len)| format!("a block of {size} bytes that the operation had freed was written to afterwards ({len} byte(s) at offset {off})"))
    })
}

/// Number of allocations made by this thread so far.
pub fn alloc_count() -> usize {
    ALLOCS.with(|a| a.get())
}

/// The n-th allocation of this thread from now on returns null (None = off).
pub fn fail_nth_alloc(n: Option<usize>) {
    FAIL_AT.with(|f| f.set(n.map(|x| x as isize).unwrap_or(-1)));
}

extern "C" fn on_segv(_sig: libc::c_int, info: *mut libc::siginfo_t, _ctx: *mut libc::c_void) {
    unsafe {
        let addr = (*info).si_addr() as usize;
        let n = NEXT_SLOT.load(Ordering::Relaxed).min(MAX_ARENAS);
        for s in SLOTS.iter().take(n) {
            let b = s.base.load(Ordering::Relaxed);
            let plen = s.protected_len.load(Ordering::Relaxed);
            if b != 0 && addr >= b && addr < b + plen {
                let mut hit = false;
                for r in 0..3 {
                    let st = s.regions[2 * r].load(Ordering::Relaxed);
                    let ln = s.regions[2 * r + 1].load(Ordering::Relaxed);
                    if ln != 0 && addr >= st && addr < st + ln {
                        hit = true;
                    }
                }
                if hit {
                    if s.cache_writes.fetch_add(1, Ordering::Relaxed) == 0 {
                        s.first_tag.store(s.cur_tag.load(Ordering::Relaxed), Ordering::Relaxed);
                        s.first_addr.store(addr, Ordering::Relaxed);
                    }
                } else {
                    s.other_writes.fetch_add(1, Ordering::Relaxed);
                }
                // let the write proceed: unprotect the faulting page only, so
                // that writes to other pages are still seen
                let page = addr & !4095;
                libc::mprotect(page as *mut libc::c_void, 4096, libc::PROT_READ | libc::PROT_WRITE);
                return;
            }
        }
        // not ours: record which worker crashed, then die the default way
        crate::contain::record_crash(libc::SIGSEGV);
        libc::signal(libc::SIGSEGV, libc::SIG_DFL);
    }
}

static HANDLER_INSTALLED: AtomicUsize = AtomicUsize::new(0);

pub fn install_handler_pub() {
    install_handler()
}

fn install_handler() {
    if HANDLER_INSTALLED.swap(1, Ordering::SeqCst) == 0 {
        unsafe {
            let mut sa: libc::sigaction = std::mem::zeroed();
            sa.sa_sigaction = on_segv as usize;
            sa.sa_flags = libc::SA_SIGINFO | libc::SA_ONSTACK | libc::SA_NODEFER;
            libc::sigemptyset(&mut sa.sa_mask);
            libc::sigaction(libc::SIGSEGV, &sa, std::ptr::null_mut());
        }
    }
}

/// Ensures this thread has an arena; returns false if none is available.
pub fn arena_init() -> bool {
    if MY_SLOT.with(|c| c.get()) != usize::MAX {
        return true;
    }
    SLOT_GUARD.with(|_| {});
    // reuse the arena of a thread that has exited
    let n = NEXT_SLOT.load(Ordering::SeqCst).min(MAX_ARENAS);
    for (i, s) in SLOTS.iter().enumerate().take(n) {
        if s.base.load(Ordering::SeqCst) != 0 && s.in_use.compare_exchange(0, 1, Ordering::SeqCst, Ordering::SeqCst).is_ok() {
            MY_SLOT.with(|c| c.set(i));
            return true;
        }
    }
    let idx = NEXT_SLOT.fetch_add(1, Ordering::SeqCst);
    if idx >= MAX_ARENAS {
        return false;
    }
    SLOTS[idx].in_use.store(1, Ordering::SeqCst);
    install_handler();
    unsafe {
        let p = libc::mmap(
            std::ptr::null_mut(),
            ARENA_SIZE,
            libc::PROT_READ | libc::PROT_WRITE,
            libc::MAP_PRIVATE | libc::MAP_ANONYMOUS | libc::MAP_NORESERVE,
            -1,
            0,
        );
        if p == libc::MAP_FAILED {
            return false;
        }
        SLOTS[idx].base.store(p as usize, Ordering::SeqCst);
    }
    MY_SLOT.with(|c| c.set(idx));
    true
}

/// Starts a fresh arena epoch: everything allocated by this thread from now
/// until `arena_off` comes from the (reset) arena.
pub fn arena_on_fresh() {
    OFFSET.with(|c| c.set(0));
    ARENA_ON.with(|c| c.set(true));
}
pub fn arena_on() {
    ARENA_ON.with(|c| c.set(true));
}
pub fn arena_off() {
    ARENA_ON.with(|c| c.set(false));
}
pub fn arena_used() -> usize {
    OFFSET.with(|c| c.get())
}
pub fn arena_contains(addr: usize) -> bool {
    let slot = MY_SLOT.with(|c| c.get());
    if slot == usize::MAX {
        return false;
    }
    let b = SLOTS[slot].base.load(Ordering::Relaxed);
    addr >= b && addr < b + ARENA_SIZE
}

pub struct TrapReport {
    pub cache_writes: usize,
    pub other_writes: usize,
    pub first_tag: usize,
    pub first_addr: usize,
}

/// Makes the used part of this thread's arena read-only and watches the three
/// regions. Must be paired with `unprotect`.
pub fn protect(regions: [(usize, usize); 3]) {
    let slot = MY_SLOT.with(|c| c.get());
    let s = &SLOTS[slot];
    for (i, (st, ln)) in regions.iter().enumerate() {
        s.regions[2 * i].store(*st, Ordering::Relaxed);
        s.regions[2 * i + 1].store(*ln, Ordering::Relaxed);
    }
    s.cache_writes.store(0, Ordering::Relaxed);
    s.other_writes.store(0, Ordering::Relaxed);
    s.first_tag.store(0, Ordering::Relaxed);
    let used = (arena_used() + 4095) & !4095;
    s.protected_len.store(used, Ordering::SeqCst);
    unsafe {
        libc::mprotect(s.base.load(Ordering::Relaxed) as *mut libc::c_void, used, libc::PROT_READ);
    }
}

pub fn set_tag(tag: usize) {
    let slot = MY_SLOT.with(|c| c.get());
    SLOTS[slot].cur_tag.store(tag, Ordering::Relaxed);
}

pub fn unprotect() -> TrapReport {
    let slot = MY_SLOT.with(|c| c.get());
    let s = &SLOTS[slot];
    let used = s.protected_len.load(Ordering::Relaxed);
    unsafe {
        libc::mprotect(s.base.load(Ordering::Relaxed) as *mut libc::c_void, used, libc::PROT_READ | libc::PROT_WRITE);
    }
    s.protected_len.store(0, Ordering::SeqCst);
    TrapReport {
        cache_writes: s.cache_writes.load(Ordering::Relaxed),
        other_writes: s.other_writes.load(Ordering::Relaxed),
        first_tag: s.first_tag.load(Ordering::Relaxed),
        first_addr: s.first_addr.load(Ordering::Relaxed),
    }
}
