//! sizemc: bounded-exhaustive enumeration of values of all nestings of the
//! supported type constructors, checking lru-mem's size estimation against a
//! structural reference (C08) and against a counting allocator (C09).
//!
//!   sizemc run --prop C08|C09 --tier quick|thorough --out FILE --replay-dir DIR
//!   sizemc ladder-child <case index> <n>
//!   sizemc replay --file F

use lru_mem::{HeapSize, MemSize, ValueSize};
use serde_json::json;
use std::alloc::{GlobalAlloc, Layout, System};
use std::cell::Cell;
use std::collections::{BTreeMap, BinaryHeap, HashMap, HashSet};
use std::ffi::{CStr, CString, OsStr, OsString};
use std::hash::Hash;
use std::marker::PhantomData;
use std::mem::{size_of, size_of_val};
use std::num::Wrapping;
use std::ops::{Range, RangeFrom, RangeInclusive, RangeTo, RangeToInclusive};
use std::panic::{catch_unwind, AssertUnwindSafe};
use std::path::{Path, PathBuf};
use std::cmp::Ordering;
use std::collections::hash_map::RandomState;
use std::fmt::Alignment;
use std::marker::PhantomPinned;
use std::net::{IpAddr, Ipv4Addr, Ipv6Addr, Shutdown, SocketAddr, SocketAddrV4, SocketAddrV6};
use std::num::{
    NonZeroI128, NonZeroI16, NonZeroI32, NonZeroI64, NonZeroI8, NonZeroIsize, NonZeroU128, NonZeroU16, NonZeroU32, NonZeroU64, NonZeroU8, NonZeroUsize,
};
use std::ops::RangeFull;
use std::sync::{Mutex, RwLock};
use std::thread::ThreadId;
use std::time::{Duration, Instant};

// ---------------------------------------------------------------------------
// Counting allocator (per thread)
// ---------------------------------------------------------------------------

struct Counting;

thread_local! {
    static LIVE: Cell<isize> = const { Cell::new(0) };
}

unsafe impl GlobalAlloc for Counting {
    unsafe fn alloc(&self, l: Layout) -> *mut u8 {
        let p = System.alloc(l);
        if !p.is_null() {
            let _ = LIVE.try_with(|c| c.set(c.get() + l.size() as isize));
        }
        p
    }
    unsafe fn dealloc(&self, p: *mut u8, l: Layout) {
        let _ = LIVE.try_with(|c| c.set(c.get() - l.size() as isize));
        System.dealloc(p, l)
    }
    unsafe fn realloc(&self, p: *mut u8, l: Layout, new: usize) -> *mut u8 {
        let q = System.realloc(p, l, new);
        if !q.is_null() {
            let _ = LIVE.try_with(|c| c.set(c.get() + new as isize - l.size() as isize));
        }
        q
    }
}

#[global_allocator]
static GLOBAL_ALLOC: Counting = Counting;

fn live() -> isize {
    LIVE.with(|c| c.get())
}

// ---------------------------------------------------------------------------
// Generators with a structural reference
// ---------------------------------------------------------------------------

#[derive(Clone, Copy, PartialEq, Eq, Debug)]
pub enum AllocCmp {
    /// heap_size must equal the bytes held from the allocator
    Exact,
    /// heap_size must not exceed them (HashMap / HashSet)
    AtMost,
    /// not comparable (contains a borrowed reference to leaked memory)
    Skip,
}

fn combine(a: AllocCmp, b: AllocCmp) -> AllocCmp {
    use AllocCmp::*;
    match (a, b) {
        (Skip, _) | (_, Skip) => Skip,
        (AtMost, _) | (_, AtMost) => AtMost,
        _ => Exact,
    }
}

pub trait Gen: MemSize + Sized + 'static {
    fn count() -> usize;
    fn make(i: usize) -> Self;
    /// heap size by the structural rules the property states
    fn ref_heap(&self) -> usize;
    fn alloc_cmp() -> AllocCmp;
    /// short description of instance i
    fn shape(i: usize) -> String {
        format!("#{i}")
    }
}

macro_rules! leaf {
    ($t:ty, [$($e:expr),+], |$s:ident| $h:expr) => {
        impl Gen for $t {
            fn count() -> usize { [$(stringify!($e)),+].len() }
            fn make(i: usize) -> Self {
                let mut k = 0usize;
                $( if k == i { return $e; } k += 1; )+
                let _ = k;
                unreachable!()
            }
            fn ref_heap(&self) -> usize { let $s = self; $h }
            fn alloc_cmp() -> AllocCmp { AllocCmp::Exact }
        }
    };
}

fn string_slack() -> String {
    let mut s = String::with_capacity(9);
    s.push_str("xyz");
    s
}
fn string_truncated() -> String {
    let mut s = "the quick brown fox jumps over".to_string();
    s.truncate(2);
    s
}
fn osstring_slack() -> OsString {
    let mut s = OsString::with_capacity(12);
    s.push("q");
    s
}
fn pathbuf_slack() -> PathBuf {
    let mut p = PathBuf::with_capacity(100);
    p.push("ab");
    p
}

leaf!(u8, [0u8, 255u8], |_s| 0);
leaf!(u64, [7u64], |_s| 0);
leaf!((), [()], |_s| 0);
leaf!(bool, [true, false], |_s| 0);
leaf!(String, [String::new(), "a".to_string(), string_slack(), string_truncated()], |s| s.capacity());
leaf!(Box<str>, [Box::<str>::from(""), Box::<str>::from("abc")], |s| s.len());
leaf!(CString, [CString::new("").unwrap(), CString::new("hey").unwrap()], |s| s.as_bytes_with_nul().len());
leaf!(OsString, [OsString::new(), OsString::from("ab"), osstring_slack()], |s| s.capacity());
leaf!(PathBuf, [PathBuf::new(), PathBuf::from("/a/b"), pathbuf_slack()], |s| s.capacity());
leaf!(Box<CStr>, [CString::new("xy").unwrap().into_boxed_c_str(), CString::new("").unwrap().into_boxed_c_str()], |s| s.to_bytes_with_nul().len());
leaf!(Box<OsStr>, [OsString::from("ab").into_boxed_os_str(), OsString::new().into_boxed_os_str()], |s| s.len());
leaf!(Box<Path>, [PathBuf::from("/x").into_boxed_path(), PathBuf::new().into_boxed_path()], |s| s.as_os_str().len());

// User-defined element types that implement HeapSize themselves and rely on the trait's
// DEFAULT bulk helpers ("for any iterator handed to them"): a handle without drop glue whose
// estimate is not constant (memory owned elsewhere, e.g. in an arena), and a buffer with
// drop glue.
#[derive(Clone, Copy, PartialEq, Eq, PartialOrd, Ord, Hash, Debug)]
pub struct Handle(pub u32);
impl HeapSize for Handle {
    fn heap_size(&self) -> usize {
        16 * (self.0 as usize % 3)
    }
}
impl Gen for Handle {
    fn count() -> usize {
        3
    }
    fn make(i: usize) -> Self {
        Handle([0u32, 1, 5][i])
    }
    fn ref_heap(&self) -> usize {
        16 * (self.0 as usize % 3)
    }
    fn alloc_cmp() -> AllocCmp {
        // what it reports is not held from the allocator
        AllocCmp::Skip
    }
}
#[derive(Clone, PartialEq, Eq, PartialOrd, Ord, Hash, Debug)]
pub struct UserBuf(pub Vec<u8>);
impl HeapSize for UserBuf {
    fn heap_size(&self) -> usize {
        self.0.capacity()
    }
}
impl Gen for UserBuf {
    fn count() -> usize {
        3
    }
    fn make(i: usize) -> Self {
        match i {
            0 => UserBuf(Vec::new()),
            1 => UserBuf(vec![1, 2, 3]),
            _ => {
                let mut v = Vec::with_capacity(11);
                v.push(9);
                UserBuf(v)
            }
        }
    }
    fn ref_heap(&self) -> usize {
        self.0.capacity()
    }
    fn alloc_cmp() -> AllocCmp {
        AllocCmp::Exact
    }
}

macro_rules! plain_leaf {
    ($t:ty, $e:expr) => {
        impl Gen for $t {
            fn count() -> usize { 1 }
            fn make(_i: usize) -> Self { $e }
            fn ref_heap(&self) -> usize { 0 }
            fn alloc_cmp() -> AllocCmp { AllocCmp::Exact }
        }
    };
}
plain_leaf!(u16, 7);
plain_leaf!(u32, 7);
plain_leaf!(u128, 7);
plain_leaf!(usize, 7);
plain_leaf!(i8, -7);
plain_leaf!(i16, -7);
plain_leaf!(i32, -7);
plain_leaf!(i64, -7);
plain_leaf!(i128, -7);
plain_leaf!(isize, -7);
plain_leaf!(f32, 1.5);
plain_leaf!(f64, 1.5);
plain_leaf!(char, 'x');
plain_leaf!(NonZeroU8, NonZeroU8::new(1).unwrap());
plain_leaf!(NonZeroU16, NonZeroU16::new(1).unwrap());
plain_leaf!(NonZeroU32, NonZeroU32::new(1).unwrap());
plain_leaf!(NonZeroU64, NonZeroU64::new(1).unwrap());
plain_leaf!(NonZeroU128, NonZeroU128::new(1).unwrap());
plain_leaf!(NonZeroUsize, NonZeroUsize::new(1).unwrap());
plain_leaf!(NonZeroI8, NonZeroI8::new(1).unwrap());
plain_leaf!(NonZeroI16, NonZeroI16::new(1).unwrap());
plain_leaf!(NonZeroI32, NonZeroI32::new(1).unwrap());
plain_leaf!(NonZeroI64, NonZeroI64::new(1).unwrap());
plain_leaf!(NonZeroI128, NonZeroI128::new(1).unwrap());
plain_leaf!(NonZeroIsize, NonZeroIsize::new(1).unwrap());
plain_leaf!(Ordering, Ordering::Less);
plain_leaf!(Duration, Duration::from_secs(3));
plain_leaf!(Instant, Instant::now());
plain_leaf!(Alignment, Alignment::Left);
plain_leaf!(PhantomPinned, PhantomPinned);
plain_leaf!(Shutdown, Shutdown::Both);
plain_leaf!(RangeFull, ..);
plain_leaf!(Ipv4Addr, Ipv4Addr::LOCALHOST);
plain_leaf!(Ipv6Addr, Ipv6Addr::LOCALHOST);
plain_leaf!(IpAddr, IpAddr::V4(Ipv4Addr::LOCALHOST));
plain_leaf!(SocketAddrV4, SocketAddrV4::new(Ipv4Addr::LOCALHOST, 80));
plain_leaf!(SocketAddrV6, SocketAddrV6::new(Ipv6Addr::LOCALHOST, 80, 0, 0));
plain_leaf!(SocketAddr, SocketAddr::V4(SocketAddrV4::new(Ipv4Addr::LOCALHOST, 80)));
plain_leaf!(RandomState, RandomState::new());
plain_leaf!(ThreadId, std::thread::current().id());

const VEC_SHAPES: [(usize, usize); 6] = [(0, 0), (0, 5), (1, 0), (1, 2), (3, 0), (3, 7)];

fn starts(n: usize) -> usize {
    n.min(2)
}

impl<T: Gen> Gen for Vec<T> {
    fn count() -> usize {
        VEC_SHAPES.len() * starts(T::count())
    }
    fn make(i: usize) -> Self {
        let (len, spare) = VEC_SHAPES[i % VEC_SHAPES.len()];
        let start = i / VEC_SHAPES.len();
        let mut v = Vec::with_capacity(len + spare);
        for j in 0..len {
            v.push(T::make((start + j) % T::count()));
        }
        v
    }
    fn ref_heap(&self) -> usize {
        self.capacity() * size_of::<T>() + self.iter().map(|x| x.ref_heap()).sum::<usize>()
    }
    fn alloc_cmp() -> AllocCmp {
        T::alloc_cmp()
    }
    fn shape(i: usize) -> String {
        let (len, spare) = VEC_SHAPES[i % VEC_SHAPES.len()];
        format!("len {len}, spare capacity {spare}, children from #{}", i / VEC_SHAPES.len())
    }
}

impl<T: Gen + Ord> Gen for BinaryHeap<T> {
    fn count() -> usize {
        VEC_SHAPES.len() * starts(T::count())
    }
    fn make(i: usize) -> Self {
        let (len, spare) = VEC_SHAPES[i % VEC_SHAPES.len()];
        let start = i / VEC_SHAPES.len();
        let mut v = BinaryHeap::with_capacity(len + spare);
        for j in 0..len {
            v.push(T::make((start + j) % T::count()));
        }
        v
    }
    fn ref_heap(&self) -> usize {
        self.capacity() * size_of::<T>() + self.iter().map(|x| x.ref_heap()).sum::<usize>()
    }
    fn alloc_cmp() -> AllocCmp {
        T::alloc_cmp()
    }
}

impl<T: Gen> Gen for Box<T> {
    fn count() -> usize {
        T::count().min(6)
    }
    fn make(i: usize) -> Self {
        Box::new(T::make(i))
    }
    fn ref_heap(&self) -> usize {
        size_of::<T>() + (**self).ref_heap()
    }
    fn alloc_cmp() -> AllocCmp {
        T::alloc_cmp()
    }
}

impl<T: Gen> Gen for Box<[T]> {
    fn count() -> usize {
        <Vec<T>>::count()
    }
    fn make(i: usize) -> Self {
        <Vec<T>>::make(i).into_boxed_slice()
    }
    fn ref_heap(&self) -> usize {
        self.len() * size_of::<T>() + self.iter().map(|x| x.ref_heap()).sum::<usize>()
    }
    fn alloc_cmp() -> AllocCmp {
        T::alloc_cmp()
    }
}

impl<T: Gen, const N: usize> Gen for [T; N] {
    fn count() -> usize {
        if N == 0 {
            1
        } else {
            T::count().min(3)
        }
    }
    fn make(i: usize) -> Self {
        std::array::from_fn(|j| T::make((i + j) % T::count()))
    }
    fn ref_heap(&self) -> usize {
        self.iter().map(|x| x.ref_heap()).sum()
    }
    fn alloc_cmp() -> AllocCmp {
        T::alloc_cmp()
    }
}

macro_rules! tuple_gen {
    ($($t:ident),+) => {
        impl<$($t: Gen),+> Gen for ($($t,)+) {
            fn count() -> usize {
                let mut m = 1usize;
                $( m = m.max($t::count()); )+
                m.min(4)
            }
            fn make(i: usize) -> Self {
                ($($t::make(i % $t::count()),)+)
            }
            fn ref_heap(&self) -> usize {
                #[allow(non_snake_case)]
                let ($($t,)+) = self;
                0 $(+ $t.ref_heap())+
            }
            fn alloc_cmp() -> AllocCmp {
                let mut c = AllocCmp::Exact;
                $( c = combine(c, $t::alloc_cmp()); )+
                c
            }
        }
    };
}
tuple_gen!(A);
tuple_gen!(A, B);
tuple_gen!(A, B, C);
tuple_gen!(A, B, C, D);
tuple_gen!(A, B, C, D, E);
tuple_gen!(A, B, C, D, E, F);
tuple_gen!(A, B, C, D, E, F, G);
tuple_gen!(A, B, C, D, E, F, G, H);
tuple_gen!(A, B, C, D, E, F, G, H, I);
tuple_gen!(A, B, C, D, E, F, G, H, I, J);

impl<T: Gen> Gen for Option<T> {
    fn count() -> usize {
        1 + T::count().min(4)
    }
    fn make(i: usize) -> Self {
        if i == 0 {
            None
        } else {
            Some(T::make(i - 1))
        }
    }
    fn ref_heap(&self) -> usize {
        match self {
            Some(x) => x.ref_heap(),
            None => 0,
        }
    }
    fn alloc_cmp() -> AllocCmp {
        T::alloc_cmp()
    }
}

impl<T: Gen, E: Gen> Gen for Result<T, E> {
    fn count() -> usize {
        T::count().min(3) + E::count().min(3)
    }
    fn make(i: usize) -> Self {
        let a = T::count().min(3);
        if i < a {
            Ok(T::make(i))
        } else {
            Err(E::make(i - a))
        }
    }
    fn ref_heap(&self) -> usize {
        match self {
            Ok(x) => x.ref_heap(),
            Err(e) => e.ref_heap(),
        }
    }
    fn alloc_cmp() -> AllocCmp {
        combine(T::alloc_cmp(), E::alloc_cmp())
    }
}

impl<T: Gen> Gen for Wrapping<T> {
    fn count() -> usize {
        T::count().min(4)
    }
    fn make(i: usize) -> Self {
        Wrapping(T::make(i))
    }
    fn ref_heap(&self) -> usize {
        self.0.ref_heap()
    }
    fn alloc_cmp() -> AllocCmp {
        T::alloc_cmp()
    }
}

impl<T: Gen> Gen for Range<T> {
    fn count() -> usize {
        T::count().min(3)
    }
    fn make(i: usize) -> Self {
        Range { start: T::make(i), end: T::make((i + 1) % T::count()) }
    }
    fn ref_heap(&self) -> usize {
        self.start.ref_heap() + self.end.ref_heap()
    }
    fn alloc_cmp() -> AllocCmp {
        T::alloc_cmp()
    }
}
impl<T: Gen> Gen for RangeInclusive<T> {
    fn count() -> usize {
        T::count().min(3)
    }
    fn make(i: usize) -> Self {
        RangeInclusive::new(T::make(i), T::make((i + 1) % T::count()))
    }
    fn ref_heap(&self) -> usize {
        self.start().ref_heap() + self.end().ref_heap()
    }
    fn alloc_cmp() -> AllocCmp {
        T::alloc_cmp()
    }
}
impl<T: Gen> Gen for RangeFrom<T> {
    fn count() -> usize {
        T::count().min(3)
    }
    fn make(i: usize) -> Self {
        RangeFrom { start: T::make(i) }
    }
    fn ref_heap(&self) -> usize {
        self.start.ref_heap()
    }
    fn alloc_cmp() -> AllocCmp {
        T::alloc_cmp()
    }
}
impl<T: Gen> Gen for RangeTo<T> {
    fn count() -> usize {
        T::count().min(3)
    }
    fn make(i: usize) -> Self {
        RangeTo { end: T::make(i) }
    }
    fn ref_heap(&self) -> usize {
        self.end.ref_heap()
    }
    fn alloc_cmp() -> AllocCmp {
        T::alloc_cmp()
    }
}
impl<T: Gen> Gen for RangeToInclusive<T> {
    fn count() -> usize {
        T::count().min(3)
    }
    fn make(i: usize) -> Self {
        RangeToInclusive { end: T::make(i) }
    }
    fn ref_heap(&self) -> usize {
        self.end.ref_heap()
    }
    fn alloc_cmp() -> AllocCmp {
        T::alloc_cmp()
    }
}

impl<T: Gen> Gen for Mutex<T> {
    fn count() -> usize {
        T::count().min(3) + 1
    }
    fn make(i: usize) -> Self {
        let n = T::count().min(3);
        if i < n {
            Mutex::new(T::make(i))
        } else {
            // a poisoned mutex is a value of this type like any other
            let m = Mutex::new(T::make(0));
            let _ = catch_unwind(AssertUnwindSafe(|| {
                let _g = m.lock().unwrap();
                std::panic::resume_unwind(Box::new(0u8));
            }));
            m
        }
    }
    fn ref_heap(&self) -> usize {
        self.lock().unwrap_or_else(|e| e.into_inner()).ref_heap()
    }
    fn alloc_cmp() -> AllocCmp {
        T::alloc_cmp()
    }
    fn shape(i: usize) -> String {
        if i < T::count().min(3) {
            format!("#{i}")
        } else {
            "poisoned".into()
        }
    }
}

impl<T: Gen> Gen for RwLock<T> {
    fn count() -> usize {
        T::count().min(3) + 1
    }
    fn make(i: usize) -> Self {
        let n = T::count().min(3);
        if i < n {
            RwLock::new(T::make(i))
        } else {
            let m = RwLock::new(T::make(0));
            let _ = catch_unwind(AssertUnwindSafe(|| {
                let _g = m.write().unwrap();
                std::panic::resume_unwind(Box::new(0u8));
            }));
            m
        }
    }
    fn ref_heap(&self) -> usize {
        self.read().unwrap_or_else(|e| e.into_inner()).ref_heap()
    }
    fn alloc_cmp() -> AllocCmp {
        T::alloc_cmp()
    }
    fn shape(i: usize) -> String {
        if i < T::count().min(3) {
            format!("#{i}")
        } else {
            "poisoned".into()
        }
    }
}

const MAP_SHAPES: [(usize, usize); 5] = [(0, 0), (0, 5), (1, 0), (3, 0), (3, 10)];

impl<K: Gen + Hash + Eq, V: Gen> Gen for HashMap<K, V> {
    fn count() -> usize {
        MAP_SHAPES.len()
    }
    fn make(i: usize) -> Self {
        let (n, reserve) = MAP_SHAPES[i];
        let mut m = HashMap::new();
        if reserve > 0 {
            m.reserve(reserve);
        }
        for j in 0..n {
            m.insert(K::make(j % K::count()), V::make(j % V::count()));
        }
        m
    }
    fn ref_heap(&self) -> usize {
        self.capacity() * size_of::<(K, V)>()
            + self.keys().map(|k| k.ref_heap()).sum::<usize>()
            + self.values().map(|v| v.ref_heap()).sum::<usize>()
    }
    fn alloc_cmp() -> AllocCmp {
        combine(AllocCmp::AtMost, combine(K::alloc_cmp(), V::alloc_cmp()))
    }
}

impl<T: Gen + Hash + Eq> Gen for HashSet<T> {
    fn count() -> usize {
        MAP_SHAPES.len()
    }
    fn make(i: usize) -> Self {
        let (n, reserve) = MAP_SHAPES[i];
        let mut m = HashSet::new();
        if reserve > 0 {
            m.reserve(reserve);
        }
        for j in 0..n {
            m.insert(T::make(j % T::count()));
        }
        m
    }
    fn ref_heap(&self) -> usize {
        self.capacity() * size_of::<T>() + self.iter().map(|k| k.ref_heap()).sum::<usize>()
    }
    fn alloc_cmp() -> AllocCmp {
        combine(AllocCmp::AtMost, T::alloc_cmp())
    }
}

/// A hasher state that owns heap memory (e.g. a seed table): HashMap / HashSet
/// estimates include their hasher's heap size.
#[derive(Clone)]
pub struct SeedBuild {
    seeds: Vec<u64>,
}
impl std::hash::BuildHasher for SeedBuild {
    type Hasher = std::collections::hash_map::DefaultHasher;
    fn build_hasher(&self) -> Self::Hasher {
        use std::hash::Hasher;
        let mut h = std::collections::hash_map::DefaultHasher::new();
        for s in &self.seeds {
            h.write_u64(*s);
        }
        h
    }
}
impl lru_mem::HeapSize for SeedBuild {
    fn heap_size(&self) -> usize {
        self.seeds.capacity() * 8
    }
}
fn seed_build(i: usize) -> SeedBuild {
    let mut seeds = Vec::with_capacity(3 + i);
    seeds.push(i as u64);
    SeedBuild { seeds }
}

impl<K: Gen + Hash + Eq, V: Gen> Gen for HashMap<K, V, SeedBuild> {
    fn count() -> usize {
        MAP_SHAPES.len()
    }
    fn make(i: usize) -> Self {
        let (n, reserve) = MAP_SHAPES[i];
        let mut m = HashMap::with_hasher(seed_build(i));
        if reserve > 0 {
            m.reserve(reserve);
        }
        for j in 0..n {
            m.insert(K::make(j % K::count()), V::make(j % V::count()));
        }
        m
    }
    fn ref_heap(&self) -> usize {
        self.hasher().seeds.capacity() * 8
            + self.capacity() * size_of::<(K, V)>()
            + self.keys().map(|k| k.ref_heap()).sum::<usize>()
            + self.values().map(|v| v.ref_heap()).sum::<usize>()
    }
    fn alloc_cmp() -> AllocCmp {
        combine(AllocCmp::AtMost, combine(K::alloc_cmp(), V::alloc_cmp()))
    }
}

impl<T: Gen + Hash + Eq> Gen for HashSet<T, SeedBuild> {
    fn count() -> usize {
        MAP_SHAPES.len()
    }
    fn make(i: usize) -> Self {
        let (n, reserve) = MAP_SHAPES[i];
        let mut m = HashSet::with_hasher(seed_build(i));
        if reserve > 0 {
            m.reserve(reserve);
        }
        for j in 0..n {
            m.insert(T::make(j % T::count()));
        }
        m
    }
    fn ref_heap(&self) -> usize {
        self.hasher().seeds.capacity() * 8 + self.capacity() * size_of::<T>() + self.iter().map(|k| k.ref_heap()).sum::<usize>()
    }
    fn alloc_cmp() -> AllocCmp {
        combine(AllocCmp::AtMost, T::alloc_cmp())
    }
}

impl<T: 'static> Gen for PhantomData<T> {
    fn count() -> usize {
        1
    }
    fn make(_i: usize) -> Self {
        PhantomData
    }
    fn ref_heap(&self) -> usize {
        0
    }
    fn alloc_cmp() -> AllocCmp {
        AllocCmp::Exact
    }
}

impl<T: Gen> Gen for &'static T {
    fn count() -> usize {
        T::count().min(3)
    }
    fn make(i: usize) -> Self {
        Box::leak(Box::new(T::make(i)))
    }
    fn ref_heap(&self) -> usize {
        0
    }
    fn alloc_cmp() -> AllocCmp {
        AllocCmp::Skip
    }
}

// ---------------------------------------------------------------------------
// Checks
// ---------------------------------------------------------------------------

#[derive(Clone, Debug)]
pub struct Viol {
    prop: &'static str,
    rule: &'static str,
    ty: String,
    detail: String,
}

static PROGRESS: std::sync::atomic::AtomicU64 = std::sync::atomic::AtomicU64::new(0);
static CURRENT: Mutex<String> = Mutex::new(String::new());

fn progress(what: impl FnOnce() -> String) {
    PROGRESS.fetch_add(1, std::sync::atomic::Ordering::Relaxed);
    if let Ok(mut c) = CURRENT.try_lock() {
        *c = what();
    }
}

#[derive(Default)]
pub struct St {
    types: u64,
    instances: u64,
    evaluations: u64,
    distinct: std::collections::BTreeSet<(String, usize, usize)>,
    viol: Vec<Viol>,
    samples: Vec<serde_json::Value>,
    classes: BTreeMap<&'static str, u64>,
    scripts: u64,
    script_states: std::collections::BTreeSet<(String, usize, usize)>,
}

impl St {
    fn v(&mut self, prop: &'static str, rule: &'static str, ty: &str, detail: String) {
        if self.viol.len() < 400 {
            self.viol.push(Viol { prop, rule, ty: ty.to_string(), detail });
        }
    }
    fn class(&mut self, c: &'static str) {
        *self.classes.entry(c).or_insert(0) += 1;
    }
}

fn tyname<T>() -> String {
    std::any::type_name::<T>()
        .replace("alloc::vec::", "")
        .replace("alloc::string::", "")
        .replace("alloc::boxed::", "")
        .replace("alloc::ffi::c_str::", "")
        .replace("alloc::collections::binary_heap::", "")
        .replace("core::option::", "")
        .replace("core::result::", "")
        .replace("core::num::wrapping::", "")
        .replace("core::ops::range::", "")
        .replace("core::marker::", "")
        .replace("core::ffi::c_str::", "")
        .replace("std::ffi::os_str::", "")
        .replace("std::path::", "")
        .replace("std::sync::poison::mutex::", "")
        .replace("std::sync::poison::rwlock::", "")
        .replace("std::sync::mutex::", "")
        .replace("std::sync::rwlock::", "")
        .replace("std::collections::hash::map::", "")
        .replace("std::collections::hash::set::", "")
}

fn panic_msg(pl: Box<dyn std::any::Any + Send>) -> String {
    if let Some(s) = pl.downcast_ref::<String>() {
        s.clone()
    } else if let Some(s) = pl.downcast_ref::<&'static str>() {
        (*s).to_string()
    } else {
        "<panic>".into()
    }
}

/// One bulk-helper evaluation: the generic part only computes; judging and
/// reporting is done in non-generic code (the catalogue instantiates this for
/// thousands of types).
type BulkOut = Vec<(&'static str, u8, Result<usize, String>)>;

thread_local! {
    static BULK_CTX: std::cell::RefCell<String> = const { std::cell::RefCell::new(String::new()) };
}

fn run_bulk_named(what: &'static str, f: impl FnOnce() -> usize) -> Result<usize, String> {
    // the watchdog names the helper x adaptor being evaluated
    progress(|| BULK_CTX.with(|c| format!("{} on {}", what, c.borrow())));
    catch_unwind(AssertUnwindSafe(f)).map_err(panic_msg)
}

/// expectation selectors: 0 all, 1 reversed, 2 even indices, 3 skip 1, 4 take 1, 5 chain (twice), 6 empty;
/// +10: value sizes (count x size_of)
fn bulk_values<T: Gen>(xs: &[T], light: bool) -> BulkOut {
    let mut o: BulkOut = Vec::with_capacity(24);
    o.push(("heap_size_sum_iter(iter)", 0, run_bulk_named("heap_size_sum_iter(iter)", || T::heap_size_sum_iter(|| xs.iter()))));
    o.push(("heap_size_sum_iter(chain)", 5, run_bulk_named("heap_size_sum_iter(chain)", || T::heap_size_sum_iter(|| xs.iter().chain(xs.iter())))));
    o.push(("heap_size_sum_exact_size_iter(iter)", 0, run_bulk_named("heap_size_sum_exact_size_iter(iter)", || T::heap_size_sum_exact_size_iter(|| xs.iter()))));
    o.push(("heap_size_sum_exact_size_iter(skip 1)", 3, run_bulk_named("heap_size_sum_exact_size_iter(skip 1)", || T::heap_size_sum_exact_size_iter(|| xs.iter().skip(1)))));
    o.push(("value_size_sum_iter(iter)", 10, run_bulk_named("value_size_sum_iter(iter)", || T::value_size_sum_iter(xs.iter()))));
    o.push(("value_size_sum_exact_size_iter(iter)", 10, run_bulk_named("value_size_sum_exact_size_iter(iter)", || T::value_size_sum_exact_size_iter(xs.iter()))));
    if light {
        return o;
    }
    o.push(("heap_size_sum_iter(rev)", 1, run_bulk_named("heap_size_sum_iter(rev)", || T::heap_size_sum_iter(|| xs.iter().rev()))));
    o.push(("heap_size_sum_iter(filter even index)", 2, run_bulk_named("heap_size_sum_iter(filter even index)", || T::heap_size_sum_iter(|| xs.iter().enumerate().filter(|(i, _)| i % 2 == 0).map(|(_, x)| x))),
    ));
    o.push(("heap_size_sum_iter(skip 1)", 3, run_bulk_named("heap_size_sum_iter(skip 1)", || T::heap_size_sum_iter(|| xs.iter().skip(1)))));
    o.push(("heap_size_sum_iter(take 1)", 4, run_bulk_named("heap_size_sum_iter(take 1)", || T::heap_size_sum_iter(|| xs.iter().take(1)))));
    o.push(("heap_size_sum_iter(map identity)", 0, run_bulk_named("heap_size_sum_iter(map identity)", || T::heap_size_sum_iter(|| xs.iter().map(|x| x)))));
    o.push(("heap_size_sum_iter(empty)", 6, run_bulk_named("heap_size_sum_iter(empty)", || T::heap_size_sum_iter(|| xs[..0].iter()))));
    o.push(("heap_size_sum_exact_size_iter(rev)", 1, run_bulk_named("heap_size_sum_exact_size_iter(rev)", || T::heap_size_sum_exact_size_iter(|| xs.iter().rev()))));
    o.push(("heap_size_sum_exact_size_iter(take 1)", 4, run_bulk_named("heap_size_sum_exact_size_iter(take 1)", || T::heap_size_sum_exact_size_iter(|| xs.iter().take(1)))));
    o.push(("heap_size_sum_exact_size_iter(map identity)", 0, run_bulk_named("heap_size_sum_exact_size_iter(map identity)", || T::heap_size_sum_exact_size_iter(|| xs.iter().map(|x| x)))));
    o.push(("heap_size_sum_exact_size_iter(empty)", 6, run_bulk_named("heap_size_sum_exact_size_iter(empty)", || T::heap_size_sum_exact_size_iter(|| xs[..0].iter()))));
    o.push(("value_size_sum_iter(filter even index)", 12, run_bulk_named("value_size_sum_iter(filter even index)", || T::value_size_sum_iter(xs.iter().enumerate().filter(|(i, _)| i % 2 == 0).map(|(_, x)| x))),
    ));
    o.push(("value_size_sum_iter(chain)", 15, run_bulk_named("value_size_sum_iter(chain)", || T::value_size_sum_iter(xs.iter().chain(xs.iter())))));
    o.push(("value_size_sum_exact_size_iter(skip 1)", 13, run_bulk_named("value_size_sum_exact_size_iter(skip 1)", || T::value_size_sum_exact_size_iter(xs.iter().skip(1)))));
    o.push(("value_size_sum_exact_size_iter(rev)", 11, run_bulk_named("value_size_sum_exact_size_iter(rev)", || T::value_size_sum_exact_size_iter(xs.iter().rev()))));
    o
}

/// The element-wise sums the bulk helpers must agree with (non-generic).
fn bulk_judge(st: &mut St, out: BulkOut, hs: &[usize], vs: usize, name: &str) {
    let n = hs.len();
    let all: Vec<usize> = (0..n).collect();
    let pick = |sel: u8| -> Vec<usize> {
        match sel % 10 {
            0 => all.clone(),
            1 => all.iter().rev().copied().collect(),
            2 => all.iter().copied().filter(|i| i % 2 == 0).collect(),
            3 => all.iter().skip(1).copied().collect(),
            4 => all.iter().take(1).copied().collect(),
            5 => all.iter().chain(all.iter()).copied().collect(),
            _ => vec![],
        }
    };
    for (what, sel, got) in out {
        st.evaluations += 1;
        progress(|| format!("{} on a list of {} instances of {}", what, n, name));
        let ix = pick(sel);
        let want = if sel >= 10 { vs * ix.len() } else { ix.iter().map(|i| hs[*i]).sum() };
        match got {
            Ok(g) => {
                if g != want {
                    st.v("C08", "C08.bulk", name, format!("{} = {} but the element-wise sum is {}", what, g, want));
                }
            }
            Err(msg) => st.v("C08", "C08.total", name, format!("{} panicked: {}", what, msg)),
        }
    }
}

fn bulk_checks<T: Gen>(st: &mut St, xs: &[T], hs: &[usize], name: &str, light: bool) {
    // the watchdog names what is being evaluated
    BULK_CTX.with(|c| *c.borrow_mut() = format!("a list of {} instances of {}", xs.len(), name));
    let out = bulk_values::<T>(xs, light);
    bulk_judge(st, out, hs, size_of::<T>(), name);
}

pub fn check_type<T: Gen>(st: &mut St) {
    check_type_x::<T>(st, false)
}

/// the deep catalogue evaluates six of the twenty bulk-helper x adaptor combinations per type
pub fn check_type_deep<T: Gen>(st: &mut St) {
    check_type_x::<T>(st, true)
}

fn check_type_x<T: Gen>(st: &mut St, light: bool) {
    let name = tyname::<T>();
    st.types += 1;
    let n = T::count();
    let mut xs: Vec<T> = Vec::with_capacity(n);
    let mut hs: Vec<usize> = Vec::with_capacity(n);
    for i in 0..n {
        st.instances += 1;
        st.evaluations += 1;
        progress(|| format!("heap_size() of instance {} of {}", T::shape(i), name));
        let before = live();
        let v = T::make(i);
        let held = live() - before;
        let heap = match catch_unwind(AssertUnwindSafe(|| v.heap_size())) {
            Ok(h) => h,
            Err(pl) => {
                st.v("C08", "C08.total", &name, format!("heap_size() of instance {} panicked: {}", T::shape(i), panic_msg(pl)));
                std::mem::forget(v);
                continue;
            }
        };
        let want = v.ref_heap();
        st.distinct.insert((name.clone(), i, heap));
        if heap != want {
            st.v("C08", "C08.compositional", &name, format!("instance {}: heap_size() = {} but own buffers + parts add up to {}", T::shape(i), heap, want));
        }
        let vsz = v.value_size();
        if vsz != size_of_val(&v) || v.mem_size() != vsz + heap {
            st.v("C08", "C08.mem=value+heap", &name, format!("instance {}: value_size {} (size_of_val {}), heap_size {}, mem_size {}", T::shape(i), vsz, size_of_val(&v), heap, v.mem_size()));
        }
        match T::alloc_cmp() {
            AllocCmp::Exact => {
                st.class("alloc:exact");
                if heap as isize != held {
                    st.v("C09", "C09.exact", &name, format!("instance {}: heap_size() = {} but the value holds {} bytes from the allocator", T::shape(i), heap, held));
                }
            }
            AllocCmp::AtMost => {
                st.class("alloc:at-most");
                if heap as isize > held {
                    st.v("C09", "C09.at-most", &name, format!("instance {}: heap_size() = {} exceeds the {} bytes held from the allocator", T::shape(i), heap, held));
                }
                if heap < want {
                    st.v("C09", "C09.at-least", &name, format!("instance {}: heap_size() = {} is below capacity x entry size + elements = {}", T::shape(i), heap, want));
                }
            }
            AllocCmp::Skip => st.class("alloc:skipped-borrowed"),
        }
        if st.samples.len() < 6 && (st.types % 97 == 1 || st.types == 400) && i == n - 1 {
            st.samples.push(json!({"type": name, "instance": T::shape(i), "heap_size": heap, "structural_reference": want, "allocator_bytes": held}));
        }
        xs.push(v);
        hs.push(heap);
    }
    if xs.len() == n {
        bulk_checks::<T>(st, &xs, &hs, &name, light);
    }
}

include!("catalogue_quick.rs");
#[cfg(feature = "deep")]
include!("catalogue_deep.rs");

// ---------------------------------------------------------------------------
// C09: build scripts - every relation between length and capacity
// ---------------------------------------------------------------------------

#[derive(Clone, Copy, Debug, PartialEq, Eq)]
enum Step {
    New,
    WithCap(usize),
    Push(usize),
    Extend(usize),
    Reserve(usize),
    ReserveExact(usize),
    ShrinkToFit,
    ShrinkTo(usize),
    Truncate(usize),
    Clear,
}

const STARTS: [Step; 4] = [Step::New, Step::WithCap(0), Step::WithCap(3), Step::WithCap(10)];
const STEPS: [Step; 11] = [
    Step::Push(1),
    Step::Push(4),
    Step::Extend(5),
    Step::Reserve(2),
    Step::Reserve(20),
    Step::ReserveExact(7),
    Step::ShrinkToFit,
    Step::ShrinkTo(2),
    Step::Truncate(1),
    Step::Clear,
    Step::Truncate(3),
];

trait Scripted: MemSize + Sized {
    fn start(s: Step) -> Self;
    fn step(&mut self, s: Step, counter: &mut usize);
    fn len_cap(&self) -> (usize, usize);
}

impl Scripted for String {
    fn start(s: Step) -> Self {
        match s {
            Step::WithCap(c) => String::with_capacity(c),
            _ => String::new(),
        }
    }
    fn step(&mut self, s: Step, _c: &mut usize) {
        match s {
            Step::Push(n) => {
                for _ in 0..n {
                    self.push('x')
                }
            }
            Step::Extend(n) => self.extend(std::iter::repeat('y').take(n)),
            Step::Reserve(n) => self.reserve(n),
            Step::ReserveExact(n) => self.reserve_exact(n),
            Step::ShrinkToFit => self.shrink_to_fit(),
            Step::ShrinkTo(n) => self.shrink_to(n),
            Step::Truncate(n) => self.truncate(n.min(self.len())),
            Step::Clear => self.clear(),
            _ => {}
        }
    }
    fn len_cap(&self) -> (usize, usize) {
        (self.len(), self.capacity())
    }
}

impl Scripted for OsString {
    fn start(s: Step) -> Self {
        match s {
            Step::WithCap(c) => OsString::with_capacity(c),
            _ => OsString::new(),
        }
    }
    fn step(&mut self, s: Step, _c: &mut usize) {
        match s {
            Step::Push(n) => {
                for _ in 0..n {
                    self.push("x")
                }
            }
            Step::Extend(n) => self.push("y".repeat(n)),
            Step::Reserve(n) => self.reserve(n),
            Step::ReserveExact(n) => self.reserve_exact(n),
            Step::ShrinkToFit => self.shrink_to_fit(),
            Step::ShrinkTo(n) => self.shrink_to(n),
            Step::Truncate(_) => {}
            Step::Clear => self.clear(),
            _ => {}
        }
    }
    fn len_cap(&self) -> (usize, usize) {
        (self.len(), self.capacity())
    }
}

impl Scripted for PathBuf {
    fn start(s: Step) -> Self {
        match s {
            Step::WithCap(c) => PathBuf::with_capacity(c),
            _ => PathBuf::new(),
        }
    }
    fn step(&mut self, s: Step, _c: &mut usize) {
        match s {
            Step::Push(n) => {
                for _ in 0..n {
                    self.push("x")
                }
            }
            Step::Extend(n) => self.push("y".repeat(n)),
            Step::Reserve(n) => self.reserve(n),
            Step::ReserveExact(n) => self.reserve_exact(n),
            Step::ShrinkToFit => self.shrink_to_fit(),
            Step::ShrinkTo(n) => self.shrink_to(n),
            Step::Truncate(_) => {
                self.pop();
            }
            Step::Clear => self.clear(),
            _ => {}
        }
    }
    fn len_cap(&self) -> (usize, usize) {
        (self.as_os_str().len(), self.capacity())
    }
}

impl<T: Gen> Scripted for Vec<T> {
    fn start(s: Step) -> Self {
        match s {
            Step::WithCap(c) => Vec::with_capacity(c),
            _ => Vec::new(),
        }
    }
    fn step(&mut self, s: Step, c: &mut usize) {
        match s {
            Step::Push(n) => {
                for _ in 0..n {
                    self.push(T::make(*c % T::count()));
                    *c += 1;
                }
            }
            Step::Extend(n) => {
                let c0 = *c;
                self.extend((0..n).map(|j| T::make((c0 + j) % T::count())));
                *c += n;
            }
            Step::Reserve(n) => self.reserve(n),
            Step::ReserveExact(n) => self.reserve_exact(n),
            Step::ShrinkToFit => self.shrink_to_fit(),
            Step::ShrinkTo(n) => self.shrink_to(n),
            Step::Truncate(n) => self.truncate(n),
            Step::Clear => self.clear(),
            _ => {}
        }
    }
    fn len_cap(&self) -> (usize, usize) {
        (self.len(), self.capacity())
    }
}

impl<T: Gen + Ord> Scripted for BinaryHeap<T> {
    fn start(s: Step) -> Self {
        match s {
            Step::WithCap(c) => BinaryHeap::with_capacity(c),
            _ => BinaryHeap::new(),
        }
    }
    fn step(&mut self, s: Step, c: &mut usize) {
        match s {
            Step::Push(n) => {
                for _ in 0..n {
                    self.push(T::make(*c % T::count()));
                    *c += 1;
                }
            }
            Step::Extend(n) => {
                let c0 = *c;
                self.extend((0..n).map(|j| T::make((c0 + j) % T::count())));
                *c += n;
            }
            Step::Reserve(n) => self.reserve(n),
            Step::ReserveExact(n) => self.reserve_exact(n),
            Step::ShrinkToFit => self.shrink_to_fit(),
            Step::ShrinkTo(n) => self.shrink_to(n),
            Step::Truncate(_) => {
                self.pop();
            }
            Step::Clear => self.clear(),
            _ => {}
        }
    }
    fn len_cap(&self) -> (usize, usize) {
        (self.len(), self.capacity())
    }
}

fn build_script<C: Scripted>(script: &[Step]) -> C {
    let mut counter = 0usize;
    let mut c = C::start(script[0]);
    for s in &script[1..] {
        c.step(*s, &mut counter);
    }
    c
}

/// Runs every script of at most `depth` steps after the start step; checks the
/// value bare and inside each wrapper.
fn run_scripts<C: Scripted + 'static>(st: &mut St, depth: usize) {
    let name = tyname::<C>();
    let mut scripts: Vec<Vec<Step>> = STARTS.iter().map(|s| vec![*s]).collect();
    let mut frontier = scripts.clone();
    for _ in 0..depth {
        let mut next = vec![];
        for sc in &frontier {
            for s in STEPS {
                let mut n = sc.clone();
                n.push(s);
                next.push(n);
            }
        }
        scripts.extend(next.iter().cloned());
        frontier = next;
    }
    for sc in &scripts {
        st.scripts += 1;
        st.evaluations += 1;
        progress(|| format!("heap_size() of a {} built by {:?}", name, sc));
        let before = live();
        let v: C = build_script(sc);
        let held = live() - before;
        let (len, cap) = v.len_cap();
        st.script_states.insert((name.clone(), len, cap));
        st.class(if cap == len { "script:cap==len" } else if len == 0 { "script:empty-with-capacity" } else { "script:cap>len" });
        let heap = v.heap_size();
        if heap as isize != held {
            st.v("C09", "C09.exact", &name, format!("built by {:?}: len {} capacity {}: heap_size() = {} but the value holds {} bytes from the allocator", sc, len, cap, heap, held));
        }
        // wrappers: the value at a deeper nesting level
        macro_rules! wrapped {
            ($label:expr, $mk:expr, $extra:expr) => {{
                let before = live();
                let w = $mk(build_script::<C>(sc));
                let held = live() - before;
                let heap = w.heap_size();
                st.evaluations += 1;
                if heap as isize != held {
                    st.v("C09", "C09.exact", &format!("{} of {}", $label, name), format!("built by {:?}: heap_size() = {} but the value holds {} bytes from the allocator", sc, heap, held));
                }
                let _ = $extra;
            }};
        }
        if sc.len() <= 3 {
            wrapped!("Some", |x| Some(x), 0);
            wrapped!("(T, u8)", |x| (x, 0u8), 0);
            wrapped!("[T; 1]", |x| [x], 0);
            wrapped!("Box", |x| Box::new(x), 0);
            wrapped!("Ok", |x| Ok::<C, u8>(x), 0);
            wrapped!("Wrapping", |x| Wrapping(x), 0);
            wrapped!("RangeFrom", |x| RangeFrom { start: x }, 0);
            wrapped!("Mutex", |x| Mutex::new(x), 0);
            wrapped!("RwLock", |x| RwLock::new(x), 0);
            wrapped!("vec![T] with spare capacity", |x| {
                let mut v = Vec::with_capacity(3);
                v.push(x);
                v
            }, 0);
        }
        if st.samples.len() < 10 && st.scripts % 1531 == 7 {
            st.samples.push(json!({"type": name, "script": format!("{:?}", sc), "len": len, "capacity": cap, "heap_size": heap, "allocator_bytes": held}));
        }
    }
}

fn run_all_scripts(st: &mut St, depth: usize) {
    run_scripts::<String>(st, depth);
    run_scripts::<OsString>(st, depth);
    run_scripts::<PathBuf>(st, depth);
    run_scripts::<Vec<u8>>(st, depth);
    run_scripts::<Vec<u64>>(st, depth);
    run_scripts::<Vec<()>>(st, depth);
    run_scripts::<Vec<String>>(st, depth);
    run_scripts::<Vec<PathBuf>>(st, depth);
    run_scripts::<Vec<Vec<u8>>>(st, depth);
    run_scripts::<Vec<(String, u8)>>(st, depth);
    run_scripts::<Vec<Option<Box<str>>>>(st, depth);
    run_scripts::<Vec<[String; 3]>>(st, depth);
    run_scripts::<BinaryHeap<u8>>(st, depth);
    run_scripts::<BinaryHeap<String>>(st, depth);
    run_scripts::<BinaryHeap<Vec<u8>>>(st, depth);
}

// ---------------------------------------------------------------------------
// C08 totality ladder (run in a child process on a small stack)
// ---------------------------------------------------------------------------

const LADDER: &[(&str, fn(usize) -> Result<(), String>)] = &[
    ("Vec<()>", |n| expect(vec![(); n].heap_size(), 0)),
    ("Vec<[String; 0]>", |n| expect((0..n).map(|_| [] as [String; 0]).collect::<Vec<_>>().heap_size(), 0)),
    ("Vec<[u8; 0]>", |n| expect(vec![[0u8; 0]; n].heap_size(), 0)),
    ("Vec<u64>", |n| {
        let v = vec![0u64; n];
        expect(v.heap_size(), v.capacity() * 8)
    }),
    ("Vec<String>", |n| {
        let v: Vec<String> = (0..n).map(|i| if i % 2 == 0 { String::new() } else { "ab".to_string() }).collect();
        expect(v.heap_size(), v.capacity() * 24 + v.iter().map(|s| s.capacity()).sum::<usize>())
    }),
    ("Box<[[String; 0]]>", |n| expect((0..n).map(|_| [] as [String; 0]).collect::<Vec<_>>().into_boxed_slice().heap_size(), 0)),
    ("Vec<([String; 0],)>", |n| expect((0..n).map(|_| ([] as [String; 0],)).collect::<Vec<_>>().heap_size(), 0)),
    ("Vec<[[String; 0]; 3]>", |n| expect((0..n).map(|_| [[], [], []] as [[String; 0]; 3]).collect::<Vec<_>>().heap_size(), 0)),
    ("Vec<[[String; 3]; 0]>", |n| expect((0..n).map(|_| [] as [[String; 3]; 0]).collect::<Vec<_>>().heap_size(), 0)),
    ("Vec<Vec<()>>", |n| {
        let v: Vec<Vec<()>> = (0..n).map(|_| Vec::new()).collect();
        expect(v.heap_size(), v.capacity() * 24)
    }),
    ("Vec<Box<[String; 0]>>", |n| {
        let v: Vec<Box<[String; 0]>> = (0..n).map(|_| Box::new([])).collect();
        expect(v.heap_size(), v.capacity() * 8)
    }),
    ("Vec<Wrapping<[String; 0]>>", |n| expect((0..n).map(|_| Wrapping([] as [String; 0])).collect::<Vec<_>>().heap_size(), 0)),
    ("Vec<Option<[String; 0]>>", |n| {
        let v: Vec<Option<[String; 0]>> = (0..n).map(|_| Some([])).collect();
        expect(v.heap_size(), v.capacity() * size_of::<Option<[String; 0]>>())
    }),
    ("Vec<[String; 1]> (mixed)", |n| {
        let v: Vec<[String; 1]> = (0..n).map(|i| [if i % 3 == 0 { "abc".to_string() } else { String::new() }]).collect();
        expect(v.heap_size(), v.capacity() * 24 + v.iter().map(|s| s[0].capacity()).sum::<usize>())
    }),
    ("BinaryHeap<[u8; 0]>", |n| expect((0..n).map(|_| [0u8; 0]).collect::<BinaryHeap<_>>().heap_size(), 0)),
    ("HashSet<u64>", |n| {
        let v: HashSet<u64> = (0..n as u64).collect();
        expect(v.heap_size(), v.capacity() * 8)
    }),
    ("HashMap<u64, [String; 0]>", |n| {
        let v: HashMap<u64, [String; 0]> = (0..n as u64).map(|i| (i, [])).collect();
        expect(v.heap_size(), v.capacity() * size_of::<(u64, [String; 0])>())
    }),
    ("heap_size_sum_exact_size_iter over [String; 0]", |n| {
        let v: Vec<[String; 0]> = (0..n).map(|_| []).collect();
        expect(<[String; 0]>::heap_size_sum_exact_size_iter(|| v.iter()), 0)
    }),
    ("heap_size_sum_iter over [String; 0] (filtered)", |n| {
        let v: Vec<[String; 0]> = (0..n).map(|_| []).collect();
        expect(<[String; 0]>::heap_size_sum_iter(|| v.iter().filter(|_| true)), 0)
    }),
    ("heap_size_sum_exact_size_iter over [[u8; 0]; 2]", |n| {
        let v: Vec<[[u8; 0]; 2]> = (0..n).map(|_| [[], []]).collect();
        expect(<[[u8; 0]; 2]>::heap_size_sum_exact_size_iter(|| v.iter()), 0)
    }),
    ("value_size_sum_iter over String (chained)", |n| {
        let v: Vec<String> = (0..n).map(|_| String::new()).collect();
        expect(String::value_size_sum_iter(v.iter().chain(v.iter())), 48 * n)
    }),
    ("heap_size_sum_iter over (String, [u8; 0])", |n| {
        let v: Vec<(String, [u8; 0])> = (0..n).map(|_| ("a".to_string(), [])).collect();
        expect(<(String, [u8; 0])>::heap_size_sum_iter(|| v.iter()), v.iter().map(|x| x.0.capacity()).sum())
    }),
    ("Vec<Box<[[String; 0]]>> (inner length n)", |n| {
        let inner: Box<[[String; 0]]> = (0..n).map(|_| [] as [String; 0]).collect::<Vec<_>>().into_boxed_slice();
        let v = vec![inner];
        expect(v.heap_size(), v.capacity() * 16)
    }),
];

fn expect(got: usize, want: usize) -> Result<(), String> {
    if got == want {
        Ok(())
    } else {
        Err(format!("returned {got}, expected {want}"))
    }
}

const LADDER_SIZES: [usize; 3] = [1_000, 100_000, 1 << 20];

fn ladder_child(idx: usize, n: usize) -> i32 {
    let (_, f) = LADDER[idx];
    let h = std::thread::Builder::new().stack_size(256 * 1024).spawn(move || f(n)).unwrap();
    match h.join() {
        Ok(Ok(())) => 0,
        Ok(Err(e)) => {
            println!("WRONG {e}");
            3
        }
        Err(pl) => {
            println!("PANIC {}", panic_msg(pl));
            4
        }
    }
}

fn run_ladder(st: &mut St) {
    let exe = std::env::current_exe().unwrap();
    let mut children = vec![];
    for (i, (name, _)) in LADDER.iter().enumerate() {
        for n in LADDER_SIZES {
            let c = std::process::Command::new(&exe)
                .arg("ladder-child")
                .arg(i.to_string())
                .arg(n.to_string())
                .stdout(std::process::Stdio::piped())
                .stderr(std::process::Stdio::piped())
                .spawn()
                .expect("spawn ladder child");
            children.push((name, n, c));
            if children.len() >= 16 {
                reap(st, &mut children);
            }
        }
    }
    reap(st, &mut children);
}

fn reap(st: &mut St, children: &mut Vec<(&&str, usize, std::process::Child)>) {
    for (name, n, c) in children.drain(..) {
        let out = c.wait_with_output().expect("wait");
        st.evaluations += 1;
        st.class("ladder:case");
        let so = String::from_utf8_lossy(&out.stdout).to_string();
        let se = String::from_utf8_lossy(&out.stderr).to_string();
        use std::os::unix::process::ExitStatusExt;
        if let Some(sig) = out.status.signal() {
            let why = if se.contains("overflowed its stack") { "stack overflow".to_string() } else { format!("killed by signal {sig}") };
            st.v("C08", "C08.total", name, format!("{n} elements on a 256 KiB stack (dev build): {why}"));
        } else if out.status.code() != Some(0) {
            st.v("C08", "C08.total", name, format!("{n} elements: {}", so.trim()));
        }
    }
}

// ---------------------------------------------------------------------------
// main
// ---------------------------------------------------------------------------

fn main() {
    let args: Vec<String> = std::env::args().collect();
    std::panic::set_hook(Box::new(|_| {}));
    match args.get(1).map(|s| s.as_str()) {
        Some("ladder-child") => {
            let idx: usize = args[2].parse().unwrap();
            let n: usize = args[3].parse().unwrap();
            std::process::exit(ladder_child(idx, n));
        }
        Some("run") => std::process::exit(cmd_run(&args[2..])),
        _ => {
            eprintln!("usage: sizemc run --prop C08|C09 --tier quick|thorough --out FILE");
            std::process::exit(2);
        }
    }
}

fn cmd_run(args: &[String]) -> i32 {
    let t0 = std::time::Instant::now();
    let mut opt: HashMap<String, String> = HashMap::new();
    let mut i = 0;
    while i + 1 < args.len() {
        if let Some(k) = args[i].strip_prefix("--") {
            opt.insert(k.to_string(), args[i + 1].clone());
        }
        i += 2;
    }
    let prop = opt.get("prop").cloned().unwrap_or_else(|| "C08".into());
    let tier = opt.get("tier").cloned().unwrap_or_else(|| "quick".into());
    let seed: i64 = opt.get("seed").and_then(|s| s.parse().ok()).unwrap_or(0);
    let thorough = tier == "thorough";
    let known = load_known(opt.get("known"));
    let script_depth = if thorough { 3 } else { 2 };
    let deep_built = cfg!(feature = "deep");
    // the enumeration runs on a worker thread; an estimate that does not
    // terminate (e.g. a helper that takes a lock twice) is a verdict, not a hang
    let prop2 = prop.clone();
    let worker = std::thread::Builder::new()
        .stack_size(64 << 20)
        .spawn(move || {
            let mut st = St::default();
            let mut catalogue_types = CATALOGUE_QUICK_TYPES;
            catalogue_quick(&mut st);
            #[cfg(feature = "deep")]
            if thorough {
                catalogue_deep(&mut st);
                catalogue_types += CATALOGUE_DEEP_TYPES;
            }
            if prop2 == "C09" {
                run_all_scripts(&mut st, script_depth);
            }
            if prop2 == "C08" {
                run_ladder(&mut st);
            }
            (st, catalogue_types)
        })
        .expect("worker");
    let mut last = 0u64;
    let mut since = std::time::Instant::now();
    let (mut st, catalogue_types) = loop {
        if worker.is_finished() {
            break worker.join().expect("worker panicked");
        }
        std::thread::sleep(std::time::Duration::from_millis(200));
        let p = PROGRESS.load(std::sync::atomic::Ordering::Relaxed);
        if p != last {
            last = p;
            since = std::time::Instant::now();
        } else if since.elapsed().as_secs_f64() > 20.0 {
            let what = CURRENT.lock().map(|c| c.clone()).unwrap_or_default();
            let replay_dir = opt.get("replay-dir").cloned().unwrap_or_else(|| "/verif/replays".into());
            let _ = std::fs::create_dir_all(&replay_dir);
            let path = format!("{}/{}-nonterminating.json", replay_dir, prop);
            let _ = std::fs::write(&path, serde_json::to_string_pretty(&json!({"property": prop, "rule": "C08.total", "detail": format!("does not terminate: {what}"), "engine": "sizemc", "tier": tier})).unwrap());
            println!("VIOLATION property={} replay={}", prop, path);
            println!("  rule C08.total: size estimation made no progress for 20 s (does not terminate): {what}");
            println!("{}: tier={} violations=1 (stopped at the non-terminating estimate)", prop, tier);
            std::process::exit(1);
        }
    };
    let wall = t0.elapsed().as_secs_f64();
    // report
    let mut n_viol = 0;
    let mut printed: BTreeMap<(String, String), usize> = BTreeMap::new();
    let mut known_hits: BTreeMap<String, (String, usize)> = BTreeMap::new();
    let replay_dir = opt.get("replay-dir").cloned().unwrap_or_else(|| "/verif/replays".into());
    let _ = std::fs::create_dir_all(&replay_dir);
    for v in &st.viol {
        if v.prop != prop {
            continue;
        }
        if let Some(k) = known.iter().find(|k| k.0 == prop && v.rule == k.1 && v.ty.contains(&k.2)) {
            let e = known_hits.entry(format!("{} {}", k.1, k.2)).or_insert((k.3.clone(), 0));
            e.1 += 1;
            continue;
        }
        n_viol += 1;
        let c = printed.entry((v.rule.to_string(), v.ty.split('<').next().unwrap_or("").to_string())).or_insert(0);
        *c += 1;
        if *c <= 2 {
            use std::hash::Hasher;
            let mut h = std::collections::hash_map::DefaultHasher::new();
            h.write(v.ty.as_bytes());
            h.write(v.detail.as_bytes());
            let path = format!("{}/{}-{:016x}.json", replay_dir, prop, h.finish());
            let _ = std::fs::write(&path, serde_json::to_string_pretty(&json!({"property": prop, "rule": v.rule, "type": v.ty, "detail": v.detail, "engine": "sizemc", "tier": tier})).unwrap());
            println!("VIOLATION property={} replay={}", prop, path);
            println!("  rule {}: {}: {}", v.rule, v.ty, v.detail);
        }
    }
    for (k, (text, n)) in &known_hits {
        println!("KNOWN-FINDING: property={} {} ({} occurrences, signature {})", prop, text, n, k);
    }
    println!(
        "{}: tier={} types={} instances={} scripts={} evaluations={} distinct={} violations={} wall={:.1}s",
        prop,
        tier,
        st.types,
        st.instances,
        st.scripts,
        st.evaluations,
        st.distinct.len() + st.script_states.len(),
        n_viol,
        wall
    );
    if let Some(out) = opt.get("out") {
        let ev = json!({
            "property_id": prop,
            "tier": tier,
            "seed": seed,
            "level": "model_checking",
            "coverage": {
                "evaluations": st.evaluations,
                "distinct_nontrivial": st.distinct.len() + st.script_states.len(),
                "rule": "catalogue: every type expression over the supported constructors up to the stated depth (generated by gen_catalogue.py subject to trait bounds), every instance from the per-constructor shape lists (length x spare capacity x child choice, caps stated in sizemc.rs); scripts: every sequence of <= depth build steps from 4 starts for each container; a case is distinct when its (type, instance index, heap size) resp. (type, len, capacity) differs",
                "samples": st.samples,
                "exhaustive": true,
                "types": st.types,
                "catalogue_types": catalogue_types,
                "deep_catalogue_compiled": deep_built,
                "instances": st.instances,
                "build_scripts": st.scripts,
                "distinct_len_capacity_relations": st.script_states.len(),
                "script_depth": script_depth,
                "ladder_cases": if prop == "C08" { LADDER.len() * LADDER_SIZES.len() } else { 0 },
                "ladder_sizes": LADDER_SIZES,
                "outcome_classes": st.classes,
                "known_findings_hit": known_hits.iter().map(|(k, v)| json!({"finding": k, "occurrences": v.1})).collect::<Vec<_>>(),
                "explanation": "Bounded-exhaustive enumeration of inputs: there is no state machine here; the space enumerated is (type expression) x (instance shape) x (iterator adaptor), and for C09 the reachable (len, capacity) relations of each container under all build scripts up to the depth, with the process's allocator as oracle.",
            },
            "assumptions": [
                "the structural reference in sizemc.rs (one line per constructor, written from the property statement)",
                "the counting global allocator sees every allocation of the thread that builds the value",
                "std's futex-based Mutex/RwLock allocate nothing on this target",
            ],
            "wall_s": wall,
            "violations": n_viol,
        });
        if let Some(parent) = std::path::Path::new(out).parent() {
            let _ = std::fs::create_dir_all(parent);
        }
        std::fs::write(out, serde_json::to_string_pretty(&ev).unwrap()).expect("write evidence");
    }
    if n_viol > 0 {
        1
    } else {
        0
    }
}

/// known: property=<id> rule=<rule> type=<substring> text...
fn load_known(path: Option<&String>) -> Vec<(String, String, String, String)> {
    let mut out = vec![];
    let Some(path) = path else { return out };
    let Ok(s) = std::fs::read_to_string(path) else { return out };
    for line in s.lines() {
        if let Some(rest) = line.trim().strip_prefix("known:") {
            let (mut p, mut r, mut t, mut text) = (String::new(), String::new(), String::new(), vec![]);
            for tok in rest.split_whitespace() {
                if let Some(x) = tok.strip_prefix("property=") {
                    p = x.into();
                } else if let Some(x) = tok.strip_prefix("rule=") {
                    r = x.into();
                } else if let Some(x) = tok.strip_prefix("type=") {
                    t = x.into();
                } else {
                    text.push(tok);
                }
            }
            if !p.is_empty() && !r.is_empty() {
                out.push((p, r, t, text.join(" ")));
            }
        }
    }
    out
}
