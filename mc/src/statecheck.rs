//! Checks evaluated once in every reached state: lookups and traversals
//! (self-loops), read-only-ness, clone, iterator consumption patterns and
//! terminal actions.

use crate::check::*;
use crate::ops::*;
use crate::refmodel;
use crate::state::*;
use crate::types::*;
use lru_mem::VerifDump;
use std::collections::BTreeSet;
use std::panic::{catch_unwind, AssertUnwindSafe};

fn v(props: Props, rule: &'static str, detail: String) -> Violation {
    Violation { props, rule, detail }
}

/// Bytes of the three memory regions a cache owns.
pub fn raw_bytes(d: &VerifDump) -> Vec<u8> {
    let mut out = Vec::with_capacity(d.self_size + d.stride + d.alloc_size);
    unsafe {
        out.extend_from_slice(std::slice::from_raw_parts(d.self_addr as *const u8, d.self_size));
        out.extend_from_slice(std::slice::from_raw_parts(d.seal as *const u8, d.stride));
        if d.alloc_size != 0 {
            out.extend_from_slice(std::slice::from_raw_parts(d.alloc_addr as *const u8, d.alloc_size));
        }
    }
    out
}

pub struct RoGuard {
    dump: VerifDump,
    bytes: Vec<u8>,
}

impl RoGuard {
    pub fn new(c: &Cache) -> RoGuard {
        let dump = c.verif_dump();
        let bytes = if cfg!(miri) { vec![] } else { raw_bytes(&dump) };
        RoGuard { dump, bytes }
    }
    /// Some(description) if the cache was written to since `new`.
    pub fn changed(&self, c: &Cache) -> Option<String> {
        let d = c.verif_dump();
        if d != self.dump {
            return Some(format!(
                "internal structure changed (links / control bytes / counters): before {:?} after {:?}",
                dump_fingerprint(&self.dump),
                dump_fingerprint(&d)
            ));
        }
        if !cfg!(miri) && raw_bytes(&d) != self.bytes {
            return Some("bytes of the cache's own memory (struct, seal or table) changed".into());
        }
        None
    }
}

#[derive(Clone, Copy, PartialEq, Eq, Debug)]
pub enum IterKind {
    Iter,
    Keys,
    Values,
    Drain,
    IntoIter,
    IntoKeys,
    IntoValues,
}
pub const ITER_KINDS: [IterKind; 7] = [
    IterKind::Iter,
    IterKind::Keys,
    IterKind::Values,
    IterKind::Drain,
    IterKind::IntoIter,
    IterKind::IntoKeys,
    IterKind::IntoValues,
];

/// What one call yielded, reduced to serials (NO_SERIAL where the kind does
/// not yield that half).
type Item = Option<(u64, u64)>;

pub fn expected_items(obs: &Obs, pat: &[bool], kind: IterKind) -> Vec<Item> {
    let mut dq: std::collections::VecDeque<&EObs> = obs.entries.iter().collect();
    pat.iter()
        .map(|f| {
            let x = if *f { dq.pop_front() } else { dq.pop_back() };
            x.map(|x| match kind {
                IterKind::Keys | IterKind::IntoKeys => (x.kserial, NO_SERIAL),
                IterKind::Values | IterKind::IntoValues => (NO_SERIAL, x.vserial),
                _ => (x.kserial, x.vserial),
            })
        })
        .collect()
}

/// Runs a borrowing iterator over the pattern.
fn run_borrowing(c: &Cache, kind: IterKind, pat: &[bool]) -> Vec<Item> {
    let mut out = Vec::with_capacity(pat.len());
    match kind {
        IterKind::Iter => {
            let mut it = c.iter();
            for f in pat {
                let x = if *f { it.next() } else { it.next_back() };
                out.push(x.map(|(k, v)| {
                    check_live(k.serial, true, "iter item");
                    check_live(v.serial, false, "iter item");
                    (k.serial, v.serial)
                }));
            }
        }
        IterKind::Keys => {
            let mut it = c.keys();
            for f in pat {
                let x = if *f { it.next() } else { it.next_back() };
                out.push(x.map(|k| {
                    check_live(k.serial, true, "keys item");
                    (k.serial, NO_SERIAL)
                }));
            }
        }
        IterKind::Values => {
            let mut it = c.values();
            for f in pat {
                let x = if *f { it.next() } else { it.next_back() };
                out.push(x.map(|v| {
                    check_live(v.serial, false, "values item");
                    (NO_SERIAL, v.serial)
                }));
            }
        }
        _ => unreachable!(),
    }
    out
}

/// Runs an owning / draining iterator over the pattern and then drops it (or
/// forgets it when `forget`). Yielded items are moved into `ex.held_*`.
/// Consumes the cache for the into_* kinds.
pub fn run_owning(ex: &mut Exec, kind: IterKind, pat: &[bool], forget: bool) -> Vec<Item> {
    let mut out = Vec::with_capacity(pat.len());
    let mut hk: Vec<TKey> = vec![];
    let mut hv: Vec<TVal> = vec![];
    macro_rules! drive {
        ($it:expr, $map:expr) => {{
            let mut it = $it;
            for f in pat {
                let x = if *f { it.next() } else { it.next_back() };
                out.push(x.map($map));
            }
            if forget {
                std::mem::forget(it);
            } else {
                drop(it);
            }
        }};
    }
    match kind {
        IterKind::Drain => {
            let c = ex.cache.as_mut().unwrap();
            drive!(c.drain(), |(k, v): (TKey, TVal)| {
                check_live(k.serial, true, "drain item");
                check_live(v.serial, false, "drain item");
                let r = (k.serial, v.serial);
                hk.push(k);
                hv.push(v);
                r
            });
        }
        IterKind::IntoIter => {
            let c = ex.cache.take().unwrap();
            drive!(c.into_iter(), |(k, v): (TKey, TVal)| {
                check_live(k.serial, true, "into_iter item");
                check_live(v.serial, false, "into_iter item");
                let r = (k.serial, v.serial);
                hk.push(k);
                hv.push(v);
                r
            });
        }
        IterKind::IntoKeys => {
            let c = ex.cache.take().unwrap();
            drive!(c.into_keys(), |k: TKey| {
                check_live(k.serial, true, "into_keys item");
                let r = (k.serial, NO_SERIAL);
                hk.push(k);
                r
            });
        }
        IterKind::IntoValues => {
            let c = ex.cache.take().unwrap();
            drive!(c.into_values(), |v: TVal| {
                check_live(v.serial, false, "into_values item");
                let r = (NO_SERIAL, v.serial);
                hv.push(v);
                r
            });
        }
        _ => unreachable!(),
    }
    ex.held_k.extend(hk);
    ex.held_v.extend(hv);
    out
}

/// All sequences over {next, next_back} of exactly `n` calls.
pub fn all_patterns(n: usize) -> Vec<Vec<bool>> {
    (0..(1usize << n)).map(|m| (0..n).map(|i| (m >> i) & 1 == 1).collect()).collect()
}

/// Structured family for long lists: F^a B^b, B^b F^a and strict alternation
/// (both phases) for all a + b <= n.
pub fn family_patterns(n: usize) -> Vec<Vec<bool>> {
    let mut out: BTreeSet<Vec<bool>> = BTreeSet::new();
    if n > 70 {
        // very long lists: a sparse set of (a, b) around the ends, the middle
        // and exhaustion, plus full alternation
        let len = n - 3;
        let pts = [0, 1, 2, len / 2, len.saturating_sub(1), len, len + 1, len + 3];
        for a in pts {
            for b in pts {
                if a + b <= n {
                    let mut p1 = vec![true; a];
                    p1.extend(vec![false; b]);
                    out.insert(p1);
                    let mut p2 = vec![false; b];
                    p2.extend(vec![true; a]);
                    out.insert(p2);
                }
            }
        }
        out.insert((0..n).map(|i| i % 2 == 0).collect());
        out.insert((0..n).map(|i| i % 2 == 1).collect());
        return out.into_iter().collect();
    }
    for a in 0..=n {
        for b in 0..=(n - a) {
            let mut p1 = vec![true; a];
            p1.extend(vec![false; b]);
            out.insert(p1);
            let mut p2 = vec![false; b];
            p2.extend(vec![true; a]);
            out.insert(p2);
        }
    }
    for l in 0..=n {
        out.insert((0..l).map(|i| i % 2 == 0).collect());
        out.insert((0..l).map(|i| i % 2 == 1).collect());
    }
    out.into_iter().collect()
}

pub fn pat_str(p: &[bool]) -> String {
    p.iter().map(|f| if *f { 'F' } else { 'B' }).collect()
}

pub struct StateOut {
    pub viol: Vec<Violation>,
    pub machinery: Option<String>,
}

#[derive(Clone, Copy)]
pub struct StateOpts {
    /// iterator patterns: exhaustive up to this list length, family beyond
    pub exhaustive_pat_len: usize,
    /// run owning-iterator patterns / terminal actions
    pub owning: bool,
    /// clone checks
    pub clone: bool,
    /// independence product depth after clone (0 = off)
    pub clone_product: u8,
    /// run the read-only battery once more with the cache's memory mprotect'ed
    pub trap: bool,
    /// drive the borrowing iterators through every next/next_back pattern
    pub borrow_patterns: bool,
}

/// Key ids used for lookups: the universe plus one id that is never stored.
fn probe_ids(ctx: &Ctx, obs: &Obs) -> Vec<u32> {
    let u = ctx.u;
    let mut v: Vec<u32> = (0..u.nkeys as u32).collect();
    v.push(60_000);
    let mut held: Vec<u32> = obs.ids();
    // long lists: the two ends, the middle and a stride in between
    if held.len() > 48 {
        let n = held.len();
        let step = n / 24;
        held = held.iter().enumerate().filter(|(i, _)| *i < 4 || *i >= n - 4 || *i == n / 2 || i % step == 0).map(|(_, x)| *x).collect();
    }
    v.extend(held);
    v.extend(ctx.extra_ids.iter().copied());
    v.sort();
    v.dedup();
    v
}

pub fn check_state(
    ctx: &Ctx,
    cfg: &Config,
    hist: &[Op],
    expect_key: Option<&[u8]>,
    opts: &StateOpts,
    st: &mut Stats,
) -> StateOut {
    let u = ctx.u;
    let e = u.e;
    let mut viol = vec![];
    reg_reset();
    reset_counts();
    set_fuel(None);
    let mut ex = rebuild(u, cfg, hist);
    st.executions += 1;
    let snap = match snapshot(ex.cr(), cfg.hk) {
        Ok(s) => s,
        Err(why) => {
            return StateOut { viol, machinery: Some(format!("state does not validate on replay: {why}")) }
        }
    };
    if let Some(k) = expect_key {
        if k != &snap.key[..] {
            return StateOut { viol, machinery: Some("replay of a witness history reached a different state".into()) };
        }
        st.replays_validated += 1;
    }
    let obs = &snap.obs;
    let n = obs.entries.len();
    let _ = take_reg_violations();

    // ------------------------------------------------------------------
    // (a) read-only operations: lookups, peeks, traversals, Debug
    // ------------------------------------------------------------------
    {
        let c = ex.cr();
        let guard = RoGuard::new(c);
        let ro = |name: &str, viol: &mut Vec<Violation>| {
            if let Some(why) = guard.changed(c) {
                viol.push(v(p(19), "C19.readonly", format!("{name} through &LruCache modified the cache: {why}")));
            }
        };
        st.rule("C04.lookup");
        st.rule("C19.readonly");
        for id in probe_ids(ctx, obs) {
            let exp = obs.entries.iter().find(|x| x.id == id);
            for borrowed in [false, true] {
                let probe = TKey::new(id, u.key_heap(id));
                let q = QKey(KeyId(id));
                let form = if borrowed { "&Q" } else { "&K" };
                // peek
                let h0 = counts();
                let r = if borrowed { c.peek(&q) } else { c.peek(&probe) };
                let h1 = counts();
                let got = r.map(|x| (x.serial, x as *const TVal as usize));
                let want = exp.map(|x| (x.vserial, x.vaddr));
                if got != want {
                    viol.push(v(p(4) | p(7), "C04.peek", format!("peek({form} k{id}) = {:?}, the traversal holds {:?} (value#, address)", got, want)));
                }
                hash_bound(&h0, &h1, 2, "peek", &mut viol);
                ro("peek", &mut viol);
                // peek_entry
                let r = if borrowed { c.peek_entry(&q) } else { c.peek_entry(&probe) };
                let got = r.map(|(k, x)| (k.serial, x.serial, k as *const TKey as usize));
                let want = exp.map(|x| (x.kserial, x.vserial, x.kaddr));
                if got != want {
                    viol.push(v(p(4) | p(7), "C04.peek_entry", format!("peek_entry({form} k{id}) = {:?}, the traversal holds {:?}", got, want)));
                }
                ro("peek_entry", &mut viol);
                // contains
                let r = if borrowed { c.contains(&q) } else { c.contains(&probe) };
                if r != exp.is_some() {
                    viol.push(v(p(4), "C04.contains", format!("contains({form} k{id}) = {r}, but the key is {}held", if exp.is_some() { "" } else { "not " })));
                }
                ro("contains", &mut viol);
                drop(probe);
            }
        }
        // LRU / MRU peeks
        st.rule("C05.peeks");
        let h0 = counts();
        let lru = c.peek_lru().map(|(k, x)| (k.serial, x.serial));
        let mru = c.peek_mru().map(|(k, x)| (k.serial, x.serial));
        let h1 = counts();
        hash_bound(&h0, &h1, 0, "peek_lru/peek_mru", &mut viol);
        if lru != obs.entries.first().map(|x| (x.kserial, x.vserial)) {
            viol.push(v(p(5) | p(4), "C05.peek_lru", format!("peek_lru() = {:?} but iteration starts with {:?}", lru, obs.entries.first().map(|x| x.id))));
        }
        if mru != obs.entries.last().map(|x| (x.kserial, x.vserial)) {
            viol.push(v(p(5) | p(4), "C05.peek_mru", format!("peek_mru() = {:?} but iteration ends with {:?}", mru, obs.entries.last().map(|x| x.id))));
        }
        ro("peek_lru/peek_mru", &mut viol);
        // scalar accessors
        let _ = (c.len(), c.is_empty(), c.current_size(), c.max_size(), c.capacity());
        if c.hasher().kind != cfg.hk {
            viol.push(v(p(4), "C04.hasher", "hasher() is not the hasher the cache was built with".into()));
        }
        ro("len/is_empty/current_size/max_size/capacity/hasher", &mut viol);
        // traversals: mirror, keys, values
        st.rule("C07.mirror");
        let h0 = counts();
        let fwd: Vec<(u64, u64)> = c.iter().take(n + 2).map(|(k, x)| (k.serial, x.serial)).collect();
        let mut rev: Vec<(u64, u64)> = c.iter().rev().take(n + 2).map(|(k, x)| (k.serial, x.serial)).collect();
        rev.reverse();
        let want: Vec<(u64, u64)> = obs.entries.iter().map(|x| (x.kserial, x.vserial)).collect();
        if fwd != want || rev != want || fwd.len() != c.len() {
            viol.push(v(p(7) | p(12), "C07.mirror", format!("forward traversal {:?}, reverse traversal reversed {:?}, len() = {}", fwd, rev, c.len())));
        }
        let ks: Vec<u64> = c.keys().take(n + 2).map(|k| k.serial).collect();
        let vs: Vec<u64> = c.values().take(n + 2).map(|x| x.serial).collect();
        if ks != want.iter().map(|x| x.0).collect::<Vec<_>>() || vs != want.iter().map(|x| x.1).collect::<Vec<_>>() {
            viol.push(v(p(12) | p(5), "C12.keys-values", format!("keys() {:?} / values() {:?} disagree with iter() {:?}", ks, vs, want)));
        }
        let h1 = counts();
        hash_bound(&h0, &h1, 0, "traversal", &mut viol);
        ro("iter/keys/values traversal", &mut viol);
        // Debug
        let s = format!("{:?}", c);
        let want_dbg = format!(
            "{{{}}}",
            obs.entries.iter().map(|x| format!("k{}: v{}", x.id, x.vheap)).collect::<Vec<_>>().join(", ")
        );
        if s != want_dbg {
            // not a property rule by itself; recorded as a diagnostic class
            st.class("debug:unexpected-format");
        }
        ro("Debug formatting", &mut viol);

        // borrowing iterator patterns
        if opts.borrow_patterns && ctx.sel & (p(12) | p(19) | p(7)) != 0 {
            st.rule("C12.borrowing");
            let pats = if n <= opts.exhaustive_pat_len { all_patterns(n + 3) } else { family_patterns(n + 3) };
            for kind in [IterKind::Iter, IterKind::Keys, IterKind::Values] {
                for pat in &pats {
                    let got = run_borrowing(c, kind, pat);
                    let want = expected_items(obs, pat, kind);
                    if got != want {
                        viol.push(v(p(12), "C12.sequence", format!("{:?} driven by {} yielded {:?}, expected {:?}", kind, pat_str(pat), got, want)));
                        break;
                    }
                }
                st.class("iter:borrowing-patterns");
            }
            ro("iter/keys/values under every next/next_back pattern", &mut viol);
        }
    }
    for rv in take_reg_violations() {
        viol.push(v(p(6) | p(7), "C06/C07.registry", rv));
    }

    if opts.trap && !cfg!(miri) {
        st.rule("C19.write-trap");
        match trap_battery(ctx, cfg, hist, st) {
            Ok(None) => {}
            // "clone() ... does not alter the source": a write by clone() is C14's as well
            Ok(Some(why)) => viol.push(v(p(19) | if why.starts_with("clone()") { p(14) } else { 0 }, "C19.write-trap", why)),
            Err(m) => return StateOut { viol, machinery: Some(m) },
        }
        // restore the registry of the main execution of this state check
        reg_reset();
        drop(ex.cache.take());
        ex = rebuild(u, cfg, hist);
        let _ = take_reg_violations();
    }

    // ------------------------------------------------------------------
    // (b) clone
    // ------------------------------------------------------------------
    if opts.clone {
        st.rule("C14.clone");
        let guard = RoGuard::new(ex.cr());
        let c0 = counts();
        let first_new = reg(|r| r.status.len() as u64);
        let cl = catch_unwind(AssertUnwindSafe(|| ex.cr().clone()));
        let c1 = counts();
        match cl {
            Err(pl) => viol.push(v(p(14), "C14.panic", format!("clone() panicked: {}", payload_str(&pl)))),
            Ok(c2) => {
                if let Some(why) = guard.changed(ex.cr()) {
                    viol.push(v(p(14) | p(19), "C19.readonly", format!("clone() modified the source: {why}")));
                }
                match snapshot(&c2, cfg.hk) {
                    Err(why) => {
                        viol.push(v(p(14) | p(7), "C07.structure", format!("the clone's structure is incoherent: {why}")));
                        std::mem::forget(c2);
                    }
                    Ok(s2) => {
                        let a: Vec<(u32, usize, usize)> = obs.entries.iter().map(|x| (x.id, x.kheap, x.vheap)).collect();
                        let b: Vec<(u32, usize, usize)> = s2.obs.entries.iter().map(|x| (x.id, x.kheap, x.vheap)).collect();
                        if a != b {
                            viol.push(v(p(14), "C14.equal", format!("source holds {:?} (LRU→MRU), clone holds {:?}", a, b)));
                        }
                        if s2.obs.cur != obs.cur || s2.obs.limit != obs.limit || s2.obs.len != obs.len {
                            viol.push(v(p(14), "C14.sizes", format!("clone: current_size {} max_size {} len {}; source: {} {} {}", s2.obs.cur, s2.obs.limit, s2.obs.len, obs.cur, obs.limit, obs.len)));
                        }
                        if s2.obs.cap < obs.cap {
                            viol.push(v(p(14), "C14.capacity", format!("clone capacity {} < source capacity {}", s2.obs.cap, obs.cap)));
                        }
                        // fresh copies
                        for (x, y) in obs.entries.iter().zip(s2.obs.entries.iter()) {
                            // a fresh instance descending (through one or more Clone calls) from the source's
                            let descends = |mut s: u64, from: u64| -> bool {
                                for _ in 0..8 {
                                    match reg(|r| r.cloned_from.get(s as usize).copied()) {
                                        Some(p) if p == from => return true,
                                        Some(p) if p != NO_SERIAL => s = p,
                                        _ => return false,
                                    }
                                }
                                false
                            };
                            if y.kserial < first_new || y.vserial < first_new || !descends(y.kserial, x.kserial) || !descends(y.vserial, x.vserial) {
                                viol.push(v(p(14), "C14.own-copies", format!("clone entry k{} is not a fresh Clone of the source's instances", y.id)));
                            }
                        }
                        let ck = c1[Cb::CloneK as usize] - c0[Cb::CloneK as usize];
                        let cv = c1[Cb::CloneV as usize] - c0[Cb::CloneV as usize];
                        if (ck as usize) < n || (cv as usize) < n {
                            viol.push(v(p(14), "C14.clone-count", format!("clone() of {n} entries cloned only {ck} keys and {cv} values")));
                        } else if ck as usize != n || cv as usize != n {
                            st.class("clone:extra-clone-calls");
                        }
                        let hashes = (c1[Cb::HashK as usize] - c0[Cb::HashK as usize]) + (c1[Cb::HashQ as usize] - c0[Cb::HashQ as usize]);
                        if hashes as usize > 2 + n {
                            viol.push(v(p(20), "C20.hashes", format!("clone() of {n} entries computed {hashes} key hashes")));
                        }
                        // recorded sizes copied (diagnostic class only; the observable consequence is judged by the transitions on the clone)
                        let ra: Vec<usize> = snap.walk.order.iter().map(|i| snap.dump.full.iter().find(|b| b.index == *i as usize).unwrap().size).collect();
                        let rb: Vec<usize> = s2.walk.order.iter().map(|i| s2.dump.full.iter().find(|b| b.index == *i as usize).unwrap().size).collect();
                        if ra != rb {
                            st.class("clone:recorded-sizes-differ");
                        }
                        // dropping the clone leaves the source intact
                        drop(c2);
                        if let Some(why) = guard.changed(ex.cr()) {
                            viol.push(v(p(14), "C14.independent", format!("dropping the clone modified the source: {why}")));
                        }
                        let o2 = observe(ex.cr(), n + 1);
                        if o2.entries != obs.entries {
                            viol.push(v(p(14), "C14.independent", "dropping the clone changed what the source holds".into()));
                        }
                    }
                }
            }
        }
        for rv in take_reg_violations() {
            viol.push(v(p(6) | p(7) | p(14), "C06/C07.registry", rv));
        }
    }

    // end of the life of the main execution
    ex.release();
    let _ = catch_unwind(AssertUnwindSafe(|| drop(ex.cache.take())));
    for rv in take_reg_violations() {
        viol.push(v(p(6) | p(7), "C06/C07.registry", rv));
    }
    let still = live_serials();
    if !still.is_empty() {
        viol.push(v(p(6), "C06.leak-at-end", format!("instances {:?} never dropped", still)));
    }

    // ------------------------------------------------------------------
    // (b') independence after clone: one operation on either side
    // ------------------------------------------------------------------
    if opts.clone && opts.clone_product >= 1 {
        st.rule("C14.product");
        let alpha = alphabet(u);
        for &op in &alpha {
            for side_is_clone in [false, true] {
                reg_reset();
                reset_counts();
                let mut ex = rebuild(u, cfg, hist);
                st.executions += 1;
                let c2 = ex.cr().clone();
                let mut ex2 = Exec::from_cache(u, c2);
                let (actor, other) = if side_is_clone { (&mut ex2, &mut ex) } else { (&mut ex, &mut ex2) };
                let pre_actor = observe(actor.cr(), n + 1);
                let other_guard = RoGuard::new(other.cr());
                let other_obs = observe(other.cr(), n + 1);
                let ret = apply_caught(actor, op);
                let who = if side_is_clone { "the clone" } else { "the source" };
                let whom = if side_is_clone { "the source" } else { "the clone" };
                if let Some(why) = other_guard.changed(other.cr()) {
                    viol.push(v(p(14), "C14.independent", format!("{} applied to {who} modified {whom}: {why}", op.show(u))));
                }
                let o_after = observe(other.cr(), n + 1);
                if o_after.entries != other_obs.entries || o_after.cur != other_obs.cur {
                    viol.push(v(p(14), "C14.independent", format!("{} applied to {who} changed what {whom} holds", op.show(u))));
                }
                // the actor behaves like an equal cache: reference step from its own observation
                match snapshot(actor.cr(), cfg.hk) {
                    Err(why) => {
                        viol.push(v(p(14) | p(7), "C07.structure", format!("{} applied to {who}: {why}", op.show(u))));
                        std::mem::forget(actor.cache.take());
                    }
                    Ok(sa) => {
                        let side = actor.side.clone();
                        let r = refmodel::step(u, &pre_actor, op, &refmodel::Incoming { kserial: side.in_k, vserial: side.in_v, kheap_override: None });
                        let mapser = |s: u64| if matches!(op, Op::CloneSwap) { reg(|r| r.cloned_from.get(s as usize).copied().unwrap_or(NO_SERIAL)) } else { s };
                        let got: Vec<(u32, u64, usize)> = sa.obs.entries.iter().map(|x| (x.id, mapser(x.vserial), x.vheap)).collect();
                        let exp: Vec<(u32, u64, usize)> = r.post.iter().map(|x| (x.id, x.vserial, x.vheap)).collect();
                        if !ret_matches(&ret, &r.ret) || got != exp || sa.obs.cur != sa.obs.sum(e) || sa.obs.cur > sa.obs.limit {
                            viol.push(v(
                                p(14),
                                "C14.equal-behaviour",
                                format!("{} applied to {who} right after clone(): returned {:?} (expected {:?}), holds {:?} (expected {:?}), current_size {} (Σ {})", op.show(u), ret, r.ret, got, exp, sa.obs.cur, sa.obs.sum(e)),
                            ));
                        }
                    }
                }
                // drop in both orders
                ex.release();
                ex2.release();
                if side_is_clone {
                    drop(ex.cache.take());
                    drop(ex2.cache.take());
                } else {
                    drop(ex2.cache.take());
                    drop(ex.cache.take());
                }
                for rv in take_reg_violations() {
                    viol.push(v(p(6) | p(7) | p(14), "C06/C07.registry", format!("{} on {who} after clone: {rv}", op.show(u))));
                }
                let still = live_serials();
                if !still.is_empty() {
                    viol.push(v(p(6) | p(14), "C06.leak-at-end", format!("{} on {who} after clone: instances {:?} never dropped", op.show(u), still)));
                }
                if viol.len() > 20 {
                    break;
                }
            }
        }
    }

    // ------------------------------------------------------------------
    // (c) owning iterators / terminal actions under every pattern and prefix
    // ------------------------------------------------------------------
    if opts.owning {
        st.rule("C12.owning");
        st.rule("C06.terminal");
        let mut pats: Vec<Vec<bool>> = vec![];
        if n <= opts.exhaustive_pat_len {
            for l in 0..=(n + 3) {
                pats.extend(all_patterns(l));
            }
        } else {
            pats = family_patterns(n + 3);
        }
        let mut empty_after_drain: Option<Vec<u8>> = None;
        'outer: for kind in [IterKind::Drain, IterKind::IntoIter, IntoKeysKind(), IterKind::IntoValues] {
            for pat in &pats {
                reg_reset();
                reset_counts();
                let mut ex = rebuild(u, cfg, hist);
                st.executions += 1;
                let o0 = observe(ex.cr(), n + 1);
                let h0 = counts();
                let got = match catch_unwind(AssertUnwindSafe(|| run_owning(&mut ex, kind, pat, false))) {
                    Ok(g) => g,
                    Err(pl) => {
                        viol.push(v(p(12), "C12.panic", format!("{:?} driven by {} panicked: {}", kind, pat_str(pat), payload_str(&pl))));
                        std::mem::forget(ex.cache.take());
                        break 'outer;
                    }
                };
                let h1 = counts();
                let want = expected_items(&o0, pat, kind);
                if got != want {
                    viol.push(v(p(12), "C12.sequence", format!("{:?} driven by {} yielded {:?}, expected {:?}", kind, pat_str(pat), got, want)));
                }
                hash_bound(&h0, &h1, 0, "drain / into_* traversal", &mut viol);
                if kind == IterKind::Drain {
                    // the drained cache: empty, size 0, valid, same state however much was consumed
                    match snapshot(ex.cr(), cfg.hk) {
                        Err(why) => {
                            viol.push(v(p(12) | p(7), "C12.drained-structure", format!("after drain driven by {} and dropped: {why}", pat_str(pat))));
                            std::mem::forget(ex.cache.take());
                        }
                        Ok(s) => {
                            if s.obs.len != 0 || s.obs.cur != 0 || !s.obs.entries.is_empty() || !s.obs.is_empty {
                                viol.push(v(p(12) | p(2), "C12.drained-empty", format!("after drain driven by {} and dropped: len {} current_size {} entries {:?}", pat_str(pat), s.obs.len, s.obs.cur, s.obs.ids())));
                            }
                            match &empty_after_drain {
                                None => empty_after_drain = Some(s.key),
                                Some(k) => {
                                    if *k != s.key {
                                        // not required by the statement (empty, size 0, usable is)
                                        st.class("drain:post-state-depends-on-consumption");
                                    }
                                }
                            }
                        }
                    }
                }
                // unconsumed items dropped exactly once, consumed items handed over exactly once
                let yielded: BTreeSet<u64> = got.iter().flatten().flat_map(|(a, b)| [*a, *b]).filter(|s| *s != NO_SERIAL).collect();
                for x in &o0.entries {
                    for (s, is_key) in [(x.kserial, true), (x.vserial, false)] {
                        let stt = reg_status(s);
                        let should_live = yielded.contains(&s);
                        if should_live && stt != Some(Status::Live) {
                            viol.push(v(p(6) | p(12), "C06.handed-back-then-dropped", format!("{:?}/{}: {} #{s} was yielded and also dropped by the iterator", kind, pat_str(pat), if is_key { "key" } else { "value" })));
                        }
                        if !should_live && stt != Some(Status::Dropped) {
                            viol.push(v(p(6) | p(12), "C06.unconsumed-not-dropped", format!("{:?}/{}: {} #{s} was not yielded and not dropped when the iterator was dropped", kind, pat_str(pat), if is_key { "key" } else { "value" })));
                        }
                    }
                }
                ex.release();
                let _ = catch_unwind(AssertUnwindSafe(|| drop(ex.cache.take())));
                for rv in take_reg_violations() {
                    viol.push(v(p(6) | p(7) | p(12), "C06/C07.registry", format!("{:?}/{}: {rv}", kind, pat_str(pat))));
                }
                let still = live_serials();
                if !still.is_empty() {
                    viol.push(v(p(6), "C06.leak-at-end", format!("{:?}/{}: instances {:?} never dropped", kind, pat_str(pat), still)));
                }
                if viol.len() > 20 {
                    break 'outer;
                }
            }
            st.class("iter:owning-patterns");
        }
        // clear then drop
        reg_reset();
        let mut ex = rebuild(u, cfg, hist);
        ex.c().clear();
        ex.release();
        drop(ex.cache.take());
        for rv in take_reg_violations() {
            viol.push(v(p(6) | p(7), "C06/C07.registry", format!("clear then drop: {rv}")));
        }
        if !live_serials().is_empty() {
            viol.push(v(p(6), "C06.leak-at-end", "clear then drop leaks".into()));
        }
    }

    viol.retain(|x| x.props & ctx.sel != 0);
    StateOut { viol, machinery: None }
}

#[allow(non_snake_case)]
fn IntoKeysKind() -> IterKind {
    IterKind::IntoKeys
}

fn hash_bound(h0: &[u32; NCB], h1: &[u32; NCB], bound: u32, what: &str, viol: &mut Vec<Violation>) {
    let hashes = (h1[Cb::HashK as usize] - h0[Cb::HashK as usize]) + (h1[Cb::HashQ as usize] - h0[Cb::HashQ as usize]);
    if hashes > bound {
        viol.push(v(p(20), "C20.hashes", format!("{what} computed {hashes} key hashes, bound {bound}")));
    }
}


/// Names of the operations of the write-trap battery, by tag.
fn tag_name(tag: usize, ids: &[u32]) -> String {
    const FIXED: [&str; 12] = [
        "?",
        "peek_lru()",
        "peek_mru()",
        "len/is_empty/current_size/max_size/capacity/hasher",
        "iter() forward",
        "iter().rev()",
        "iter() alternating next/next_back",
        "keys() forward and backward",
        "values() forward and backward",
        "Debug formatting",
        "clone() (and dropping the clone)",
        "iter() created and dropped",
    ];
    if tag < 100 {
        return FIXED.get(tag).copied().unwrap_or("?").to_string();
    }
    let t = tag - 100;
    let id = ids.get(t / 6).copied().unwrap_or(0);
    let what = ["peek(&K", "peek(&Q", "peek_entry(&K", "peek_entry(&Q", "contains(&K", "contains(&Q"][t % 6];
    format!("{what} k{id})")
}

/// Rebuilds the state with everything the cache owns inside this thread's
/// arena, makes the arena read-only and runs every shared-reference
/// operation. Ok(Some(description)) if one of them wrote to the cache.
pub fn trap_battery(ctx: &Ctx, cfg: &Config, hist: &[Op], st: &mut Stats) -> Result<Option<String>, String> {
    use crate::trap;
    let u = ctx.u;
    if !trap::arena_init() {
        st.class("trap:no-arena");
        return Ok(None);
    }
    reg_reset();
    reset_counts();
    set_fuel(None);
    trap::arena_on_fresh();
    let mut ex = rebuild(u, cfg, hist);
    let boxed: Box<Cache> = Box::new(ex.cache.take().unwrap());
    trap::arena_off();
    st.executions += 1;
    let c: &Cache = &boxed;
    let d = c.verif_dump();
    if !trap::arena_contains(d.self_addr) || !trap::arena_contains(d.seal) || (d.alloc_size != 0 && !trap::arena_contains(d.alloc_addr)) {
        // arena exhausted (very large state): nothing to watch
        st.class("trap:outside-arena");
        drop(boxed);
        return Ok(None);
    }
    let obs = observe(c, d.items + 1);
    let ids = probe_ids(ctx, &obs);
    // probes are created before protecting (their creation touches only the registry)
    trap::protect([(d.self_addr, d.self_size), (d.seal, d.stride), (d.alloc_addr, d.alloc_size)]);
    for (i, id) in ids.iter().enumerate() {
        let probe = TKey::new(*id, u.key_heap(*id));
        let q = QKey(KeyId(*id));
        trap::set_tag(100 + 6 * i);
        let _ = c.peek(&probe).map(|x| x.serial);
        trap::set_tag(100 + 6 * i + 1);
        let _ = c.peek(&q).map(|x| x.serial);
        trap::set_tag(100 + 6 * i + 2);
        let _ = c.peek_entry(&probe).map(|x| x.0.serial);
        trap::set_tag(100 + 6 * i + 3);
        let _ = c.peek_entry(&q).map(|x| x.0.serial);
        trap::set_tag(100 + 6 * i + 4);
        let _ = c.contains(&probe);
        trap::set_tag(100 + 6 * i + 5);
        let _ = c.contains(&q);
        std::mem::forget(probe); // dropping would only touch the registry; keep the window minimal
    }
    trap::set_tag(1);
    let _ = c.peek_lru().map(|x| x.0.serial);
    trap::set_tag(2);
    let _ = c.peek_mru().map(|x| x.0.serial);
    trap::set_tag(3);
    let _ = (c.len(), c.is_empty(), c.current_size(), c.max_size(), c.capacity(), c.hasher().kind);
    let n = d.items;
    trap::set_tag(4);
    let _ = c.iter().take(n + 2).count();
    trap::set_tag(5);
    let _ = c.iter().rev().take(n + 2).count();
    trap::set_tag(6);
    {
        let mut it = c.iter();
        let mut k = 0;
        loop {
            let x = if k % 2 == 0 { it.next() } else { it.next_back() };
            k += 1;
            if x.is_none() || k > n + 3 {
                break;
            }
        }
    }
    trap::set_tag(7);
    let _ = c.keys().take(n + 2).count();
    let _ = c.keys().rev().take(n + 2).count();
    trap::set_tag(8);
    let _ = c.values().take(n + 2).count();
    let _ = c.values().rev().take(n + 2).count();
    trap::set_tag(9);
    let _ = format!("{:?}", c);
    trap::set_tag(10);
    {
        let c2 = c.clone();
        drop(c2);
    }
    trap::set_tag(11);
    drop(c.iter());
    let rep = trap::unprotect();
    st.class("trap:battery");
    let out = if rep.cache_writes > 0 {
        let region = if rep.first_addr >= d.self_addr && rep.first_addr < d.self_addr + d.self_size {
            format!("the LruCache struct (offset {})", rep.first_addr - d.self_addr)
        } else if rep.first_addr >= d.seal && rep.first_addr < d.seal + d.stride {
            format!("the seal (offset {})", rep.first_addr - d.seal)
        } else {
            format!("the table allocation (offset {})", rep.first_addr - d.alloc_addr)
        };
        Some(format!(
            "{} through &LruCache wrote to {} while the cache's memory was write-protected ({} faulting write(s) in total)",
            tag_name(rep.first_tag, &ids),
            region,
            rep.cache_writes
        ))
    } else {
        None
    };
    if rep.other_writes > 0 {
        st.class("trap:harness-write-in-arena");
    }
    ex.release();
    let _ = catch_unwind(AssertUnwindSafe(|| drop(boxed)));
    Ok(out)
}
