//! The operation alphabet, the universe it is instantiated over, and the
//! executor that applies one operation to the real cache and reports what the
//! public API returned in a normalised form (`Ret`).

use crate::types::*;
use lru_mem::{InsertError, MutateError, TryInsertError};
use std::cell::RefCell;

pub const HUGE: usize = 1 << 20;

#[derive(Clone, Debug)]
pub struct Universe {
    pub nkeys: u16,
    pub vheaps: Vec<usize>,
    pub limits: Vec<usize>,
    pub reserve_args: Vec<usize>,
    /// size_of Entry<TKey,TVal>
    pub e: usize,
    /// keys that only exist as seed fillers (ids nkeys..nkeys+fillers) are not
    /// part of the alphabet
    pub drain_pats: Vec<Vec<bool>>,
    /// key 0 is inserted in two sizes (equal keys, different size estimates)
    pub vary_key_heap: bool,
}

impl Universe {
    pub fn new(nkeys: u16, big_limits: bool) -> Universe {
        Universe::with_richness(nkeys, big_limits, true)
    }

    /// rich = false: four value sizes instead of five and one size per key
    /// (used where the enumeration multiplies every state by every fault point)
    pub fn with_richness(nkeys: u16, big_limits: bool, rich: bool) -> Universe {
        let e = entry_overhead();
        let mut limits = vec![0, e - 1, e, e + 1, 2 * e + 1, 2 * e + 2, 3 * e + 3];
        if big_limits {
            limits.push(4 * e + 4);
        }
        if big_limits && nkeys >= 5 {
            limits.push(5 * e + 5);
        }
        limits.push(usize::MAX);
        Universe {
            nkeys,
            vheaps: if rich { vec![0, 1, 2, 2 * e, HUGE] } else { vec![0, 1, 2, HUGE] },
            vary_key_heap: rich,
            limits,
            reserve_args: vec![0, 1, 5, usize::MAX, usize::MAX / 2],
            e,
            drain_pats: vec![
                vec![],
                vec![true],
                vec![false],
                vec![true, false, true, false, true, false, true, false],
            ],
        }
    }
    /// Two keys, value sizes {0, 1, usize::MAX / 2}, limits around the giant
    /// entry and usize::MAX: arithmetic near the top of the usize range (the
    /// sum of what is HELD always stays representable; intermediate sums in a
    /// careless implementation do not).
    pub fn giant() -> Universe {
        let mut u = Universe::with_richness(2, false, false);
        let g = usize::MAX / 2;
        // g = isize::MAX; g + 2 is a growth that does not fit a signed word; the last
        // size makes an entry of key 1 (whose key owns one byte) exactly usize::MAX bytes
        u.vheaps = vec![0, 1, g, g + 2, usize::MAX - u.e - 1];
        u.limits = vec![0, u.e, u.e + g, 2 * u.e + g + 1, u.e + g + 3, 2 * u.e + g + 4, usize::MAX - 1, usize::MAX];
        u
    }

    pub fn key_heap(&self, id: u32) -> usize {
        (id % 2) as usize
    }
    /// heap size of the key instance created by insert / try_insert of key
    /// `id` with value class `h`: equal keys need not have equal size
    /// estimates (think of two equal Strings with different capacities), so
    /// key 0 comes in two sizes
    pub fn ins_key_heap(&self, id: u32, h: u8) -> usize {
        if id == 0 && self.vary_key_heap {
            (h % 2) as usize
        } else {
            self.key_heap(id)
        }
    }
}

/// LEN marks "the current length" for shrink_to
pub const SHRINK_ARGS: [usize; 4] = [0, 2, usize::MAX - 1, usize::MAX];
pub const SHRINK_LEN: usize = usize::MAX - 1;

#[derive(Clone, Copy, PartialEq, Eq, Hash, Debug, PartialOrd, Ord)]
pub enum Op {
    Insert { k: u16, h: u8 },
    TryInsert { k: u16, h: u8 },
    Get { k: u16, b: bool },
    GetEntry { k: u16, b: bool },
    Touch { k: u16, b: bool },
    Remove { k: u16, b: bool },
    RemoveEntry { k: u16, b: bool },
    Mutate { k: u16, h: u8, b: bool },
    GetLru,
    RemoveLru,
    RemoveMru,
    Clear,
    SetMax { l: u8 },
    /// keep the keys whose bit (id mod 16) is set
    Retain { mask: u16 },
    Reserve { a: u8 },
    TryReserve { a: u8 },
    ShrinkTo { m: u8 },
    ShrinkToFit,
    /// continue on a clone of the cache, drop the original
    CloneSwap,
    Drain { pat: u8 },
    /// set_max_size with an explicit value (seeded runs)
    SetMaxRaw { v: usize },
    /// insert with an explicit value heap (seeded runs)
    InsertRaw { k: u16, vheap: u32 },
    /// retain keeping ids with id % m != r (seeded runs)
    RetainMod { m: u16, r: u16 },
    /// read-only lookups as operations (fault enumeration needs them as steps)
    Peek { k: u16, b: bool },
    PeekEntry { k: u16, b: bool },
    Contains { k: u16, b: bool },
    /// debug-format the cache
    DebugFmt,
    /// not a cache operation: arms the fuel so that the idx-th callback of
    /// `kind` inside the *next* operation panics
    ArmFuel { kind: u8, idx: u16 },
    /// drain(), `n` calls (bit i of `bits`: 1 = next, 0 = next_back), then
    /// mem::forget the iterator
    DrainForget { n: u8, bits: u64 },
}

impl Op {
    pub fn show(&self, u: &Universe) -> String {
        let hs = |h: &u8| {
            let v = u.vheaps[*h as usize];
            if v == HUGE {
                "HUGE".to_string()
            } else if v == usize::MAX / 2 {
                "usize::MAX/2".to_string()
            } else {
                v.to_string()
            }
        };
        let bs = |b: &bool| if *b { "&Q" } else { "&K" };
        match self {
            Op::Insert { k, h } => format!("insert(k{k}, v{})", hs(h)),
            Op::TryInsert { k, h } => format!("try_insert(k{k}, v{})", hs(h)),
            Op::Get { k, b } => format!("get({} k{k})", bs(b)),
            Op::GetEntry { k, b } => format!("get_entry({} k{k})", bs(b)),
            Op::Touch { k, b } => format!("touch({} k{k})", bs(b)),
            Op::Remove { k, b } => format!("remove({} k{k})", bs(b)),
            Op::RemoveEntry { k, b } => format!("remove_entry({} k{k})", bs(b)),
            Op::Mutate { k, h, b } => format!("mutate({} k{k}, heap:={})", bs(b), hs(h)),
            Op::GetLru => "get_lru()".into(),
            Op::RemoveLru => "remove_lru()".into(),
            Op::RemoveMru => "remove_mru()".into(),
            Op::Clear => "clear()".into(),
            Op::SetMax { l } => {
                let v = u.limits[*l as usize];
                if v == usize::MAX {
                    "set_max_size(usize::MAX)".into()
                } else {
                    format!("set_max_size({v})")
                }
            }
            Op::Retain { mask } => format!("retain(|k,_| {mask:#b} >> k.id & 1 == 1)"),
            Op::Reserve { a } => format!("reserve({})", fmt_big(u.reserve_args[*a as usize])),
            Op::TryReserve { a } => {
                format!("try_reserve({})", fmt_big(u.reserve_args[*a as usize]))
            }
            Op::ShrinkTo { m } => {
                let v = SHRINK_ARGS[*m as usize];
                if v == SHRINK_LEN {
                    "shrink_to(len())".into()
                } else {
                    format!("shrink_to({})", fmt_big(v))
                }
            }
            Op::ShrinkToFit => "shrink_to_fit()".into(),
            Op::CloneSwap => "cache = cache.clone()".into(),
            Op::Drain { pat } => format!(
                "drain() consuming [{}] then drop",
                u.drain_pats[*pat as usize]
                    .iter()
                    .map(|f| if *f { "next" } else { "next_back" })
                    .collect::<Vec<_>>()
                    .join(",")
            ),
            Op::SetMaxRaw { v } => format!("set_max_size({})", fmt_big(*v)),
            Op::InsertRaw { k, vheap } => format!("insert(k{k}, v{vheap})"),
            Op::RetainMod { m, r } => format!("retain(|k,_| k.id % {m} != {r})"),
            Op::Peek { k, b } => format!("peek({} k{k})", bs(b)),
            Op::PeekEntry { k, b } => format!("peek_entry({} k{k})", bs(b)),
            Op::Contains { k, b } => format!("contains({} k{k})", bs(b)),
            Op::DebugFmt => "format!(\"{:?}\", cache)".into(),
            Op::ArmFuel { kind, idx } => format!(
                "/* the next operation: invocation #{idx} of {:?} panics (caught with catch_unwind) */",
                CB_KINDS[*kind as usize]
            ),
            Op::DrainForget { n, bits } => format!(
                "{{ let mut d = cache.drain(); {} mem::forget(d); }}",
                (0..*n).map(|i| if (bits >> i) & 1 == 1 { "d.next();" } else { "d.next_back();" }).collect::<Vec<_>>().join(" ")
            ),
        }
    }
}

pub fn fmt_big(v: usize) -> String {
    if v == usize::MAX {
        "usize::MAX".into()
    } else if v == usize::MAX / 2 {
        "usize::MAX/2".into()
    } else {
        v.to_string()
    }
}

/// The closure alphabet over a universe.
pub fn alphabet(u: &Universe) -> Vec<Op> {
    let mut v = Vec::new();
    let nh = u.vheaps.len() as u8;
    for k in 0..u.nkeys {
        for h in 0..nh {
            v.push(Op::Insert { k, h });
        }
    }
    for k in 0..u.nkeys {
        for h in 0..nh {
            v.push(Op::TryInsert { k, h });
        }
    }
    for b in [false, true] {
        for k in 0..u.nkeys {
            v.push(Op::Get { k, b });
            v.push(Op::GetEntry { k, b });
            v.push(Op::Touch { k, b });
            v.push(Op::Remove { k, b });
            v.push(Op::RemoveEntry { k, b });
        }
    }
    for k in 0..u.nkeys {
        for h in 0..nh {
            v.push(Op::Mutate { k, h, b: (k + h as u16) % 2 == 1 });
        }
    }
    v.push(Op::GetLru);
    v.push(Op::RemoveLru);
    v.push(Op::RemoveMru);
    v.push(Op::Clear);
    for l in 0..u.limits.len() as u8 {
        v.push(Op::SetMax { l });
    }
    for mask in 0..(1u16 << u.nkeys) {
        v.push(Op::Retain { mask });
    }
    for a in 0..u.reserve_args.len() as u8 {
        v.push(Op::Reserve { a });
        v.push(Op::TryReserve { a });
    }
    for m in 0..SHRINK_ARGS.len() as u8 {
        v.push(Op::ShrinkTo { m });
    }
    v.push(Op::ShrinkToFit);
    v.push(Op::CloneSwap);
    for pat in 0..u.drain_pats.len() as u8 {
        v.push(Op::Drain { pat });
    }
    v
}

// ---------------------------------------------------------------------------
// Normalised return values
// ---------------------------------------------------------------------------

#[derive(Clone, PartialEq, Eq, Debug)]
pub struct KO {
    pub id: u32,
    pub heap: usize,
    pub serial: u64,
}
#[derive(Clone, PartialEq, Eq, Debug)]
pub struct VO {
    pub heap: usize,
    pub serial: u64,
}

#[derive(Clone, PartialEq, Eq, Debug)]
pub enum Ret {
    Unit,
    Val(Option<VO>),
    Entry(Option<(KO, VO)>),
    InsertOk(Option<VO>),
    InsertTooLarge { k: KO, v: VO, entry_size: usize, max_size: usize },
    TryOk,
    TryTooLarge { k: KO, v: VO, entry_size: usize, max_size: usize },
    TryWouldEject { k: KO, v: VO, entry_size: usize, free_memory: usize },
    TryOccupied { k: KO, v: VO },
    MutOk(Option<u64>),
    MutTooLarge { k: KO, v: VO, old: usize, new: usize, max: usize },
    ReserveOk,
    ReserveErr { overflow: bool },
    /// one element per call of the pattern, then the remainder is dropped
    Drained(Vec<Option<(KO, VO)>>),
    Bool(bool),
    Text(String),
    /// the operation panicked (documented panic of reserve, or unexpected)
    Panicked(String),
}

pub fn ko(k: &TKey, ctx: &str) -> KO {
    check_live(k.serial, true, ctx);
    KO { id: k.id.0 as u32, heap: k.heap, serial: k.serial }
}
pub fn vo(v: &TVal, ctx: &str) -> VO {
    check_live(v.serial, false, ctx);
    VO { heap: v.heap, serial: v.serial }
}

/// token returned by the mutate closure for a value
pub fn mut_token(vserial: u64, new_heap: usize) -> u64 {
    vserial.wrapping_mul(1_000_003).wrapping_add(new_heap as u64) ^ 0x5a5a
}

// ---------------------------------------------------------------------------
// Configuration of an initial state
// ---------------------------------------------------------------------------

#[derive(Clone, Copy, PartialEq, Eq, Hash, Debug, PartialOrd, Ord)]
pub struct Config {
    pub hk: HK,
    /// None = with_hasher, Some(c) = with_capacity_and_hasher(c)
    pub cap: Option<u32>,
    pub limit: usize,
}

impl Config {
    pub fn build(&self) -> Cache {
        match self.cap {
            None => Cache::with_hasher(self.limit, TBuild { kind: self.hk }),
            Some(c) => {
                Cache::with_capacity_and_hasher(self.limit, c as usize, TBuild { kind: self.hk })
            }
        }
    }
    pub fn show(&self) -> String {
        match self.cap {
            None => format!(
                "LruCache::with_hasher({}, {})",
                fmt_big(self.limit),
                self.hk.name()
            ),
            Some(c) => format!(
                "LruCache::with_capacity_and_hasher({}, {}, {})",
                fmt_big(self.limit),
                c,
                self.hk.name()
            ),
        }
    }
}

// ---------------------------------------------------------------------------
// Executor
// ---------------------------------------------------------------------------

/// Side information about the last applied operation that the oracles need.
#[derive(Default, Clone, Debug)]
pub struct Side {
    /// serials of the key / value created for insert / try_insert
    pub in_k: u64,
    pub in_v: u64,
    /// value serials the mutate closure was called with
    pub mut_calls: Vec<u64>,
    /// (key serial, value serial) of each predicate invocation
    pub pred_calls: Vec<(u64, u64)>,
}

pub struct Exec<'u> {
    pub u: &'u Universe,
    pub cache: Option<Cache>,
    pub held_k: Vec<TKey>,
    pub held_v: Vec<TVal>,
    pub side: Side,
}

thread_local! {
    static SIDE: RefCell<Side> = RefCell::new(Side::default());
}

impl<'u> Exec<'u> {
    pub fn new(u: &'u Universe, cfg: &Config) -> Exec<'u> {
        Exec { u, cache: Some(cfg.build()), held_k: vec![], held_v: vec![], side: Side::default() }
    }
    pub fn from_cache(u: &'u Universe, c: Cache) -> Exec<'u> {
        Exec { u, cache: Some(c), held_k: vec![], held_v: vec![], side: Side::default() }
    }
    pub fn c(&mut self) -> &mut Cache {
        self.cache.as_mut().unwrap()
    }
    pub fn cr(&self) -> &Cache {
        self.cache.as_ref().unwrap()
    }

    fn hold(&mut self, k: TKey, v: TVal) -> (KO, VO) {
        let r = (ko(&k, "returned key"), vo(&v, "returned value"));
        self.held_k.push(k);
        self.held_v.push(v);
        r
    }
    fn hold_v(&mut self, v: TVal) -> VO {
        let r = vo(&v, "returned value");
        self.held_v.push(v);
        r
    }

    /// Drops everything the harness received so far.
    pub fn release(&mut self) {
        self.held_k.clear();
        self.held_v.clear();
    }

    /// Applies one operation. May unwind (injected panic, documented panic,
    /// or a bug); the caller wraps it in catch_unwind.
    pub fn apply(&mut self, op: Op) -> Ret {
        SIDE.with(|s| *s.borrow_mut() = Side::default());
        let r = self.apply_inner(op);
        self.side = SIDE.with(|s| s.borrow().clone());
        r
    }

    /// Side information recorded so far (also valid after an unwind).
    pub fn side_now() -> Side {
        SIDE.with(|s| s.borrow().clone())
    }

    fn apply_inner(&mut self, op: Op) -> Ret {
        let u = self.u;
        match op {
            Op::Insert { k, h } => self.do_insert(k, u.ins_key_heap(k as u32, h), u.vheaps[h as usize]),
            Op::InsertRaw { k, vheap } => self.do_insert(k, u.key_heap(k as u32), vheap as usize),
            Op::TryInsert { k, h } => {
                let key = TKey::new(k as u32, u.ins_key_heap(k as u32, h));
                let val = TVal::new(u.vheaps[h as usize]);
                SIDE.with(|s| {
                    let mut s = s.borrow_mut();
                    s.in_k = key.serial;
                    s.in_v = val.serial;
                });
                let sel = (k as usize + h as usize) % 3;
                match self.c().try_insert(key, val) {
                    Ok(()) => Ret::TryOk,
                    Err(e) => {
                        // exercise the borrowing accessors
                        let (rk, rv) = e.entry();
                        let (k1, v1) = (ko(rk, "TryInsertError::entry"), vo(rv, "TryInsertError::entry"));
                        let k2 = ko(e.key(), "TryInsertError::key");
                        let v2 = vo(e.value(), "TryInsertError::value");
                        if k1 != k2 || v1 != v2 {
                            reg(|r| {
                                r.violations.push(
                                    "TryInsertError accessors disagree with each other".into(),
                                )
                            });
                        }
                        let shape = match &e {
                            TryInsertError::OccupiedEntry { .. } => (0, 0, 0),
                            TryInsertError::WouldEjectLru { entry_size, free_memory, .. } => {
                                (1, *entry_size, *free_memory)
                            }
                            TryInsertError::EntryTooLarge { entry_size, max_size, .. } => {
                                (2, *entry_size, *max_size)
                            }
                        };
                        // Display must not panic
                        let _ = format!("{e}");
                        match sel {
                            0 => {
                                let (k, v) = e.into_entry();
                                self.hold(k, v);
                            }
                            1 => {
                                let k = e.into_key();
                                if k.serial != k1.serial {
                                    reg(|r| r.violations.push("into_key returned another key".into()));
                                }
                                self.held_k.push(k);
                            }
                            _ => {
                                let v = e.into_value();
                                if v.serial != v1.serial {
                                    reg(|r| {
                                        r.violations.push("into_value returned another value".into())
                                    });
                                }
                                self.held_v.push(v);
                            }
                        }
                        match shape.0 {
                            0 => Ret::TryOccupied { k: k1, v: v1 },
                            1 => Ret::TryWouldEject {
                                k: k1,
                                v: v1,
                                entry_size: shape.1,
                                free_memory: shape.2,
                            },
                            _ => Ret::TryTooLarge { k: k1, v: v1, entry_size: shape.1, max_size: shape.2 },
                        }
                    }
                }
            }
            Op::Get { k, b } => {
                let r = if b {
                    self.c().get(&QKey(KeyId(k as u32))).map(|v| vo(v, "get"))
                } else {
                    let p = TKey::new(k as u32, u.key_heap(k as u32));
                    self.c().get(&p).map(|v| vo(v, "get"))
                };
                Ret::Val(r)
            }
            Op::GetEntry { k, b } => {
                let r = if b {
                    self.c()
                        .get_entry(&QKey(KeyId(k as u32)))
                        .map(|(k, v)| (ko(k, "get_entry"), vo(v, "get_entry")))
                } else {
                    let p = TKey::new(k as u32, u.key_heap(k as u32));
                    self.c().get_entry(&p).map(|(k, v)| (ko(k, "get_entry"), vo(v, "get_entry")))
                };
                Ret::Entry(r)
            }
            Op::Touch { k, b } => {
                if b {
                    self.c().touch(&QKey(KeyId(k as u32)));
                } else {
                    let p = TKey::new(k as u32, u.key_heap(k as u32));
                    self.c().touch(&p);
                }
                Ret::Unit
            }
            Op::Remove { k, b } => {
                let r = if b {
                    self.c().remove(&QKey(KeyId(k as u32)))
                } else {
                    let p = TKey::new(k as u32, u.key_heap(k as u32));
                    self.c().remove(&p)
                };
                Ret::Val(r.map(|v| self.hold_v(v)))
            }
            Op::RemoveEntry { k, b } => {
                let r = if b {
                    self.c().remove_entry(&QKey(KeyId(k as u32)))
                } else {
                    let p = TKey::new(k as u32, u.key_heap(k as u32));
                    self.c().remove_entry(&p)
                };
                Ret::Entry(r.map(|(k, v)| self.hold(k, v)))
            }
            Op::Mutate { k, h, b } => {
                let nh = u.vheaps[h as usize];
                let f = move |v: &mut TVal| {
                    SIDE.with(|s| s.borrow_mut().mut_calls.push(v.serial));
                    callback(Cb::MutPre);
                    check_live(v.serial, false, "value passed to mutate closure");
                    v.heap = nh;
                    callback(Cb::MutPost);
                    mut_token(v.serial, nh)
                };
                let r = if b {
                    self.c().mutate(&QKey(KeyId(k as u32)), f)
                } else {
                    let p = TKey::new(k as u32, u.key_heap(k as u32));
                    self.c().mutate(&p, f)
                };
                match r {
                    Ok(t) => Ret::MutOk(t),
                    Err(e) => {
                        let _ = format!("{e}");
                        match e {
                            MutateError::EntryTooLarge {
                                key,
                                value,
                                old_entry_size,
                                new_entry_size,
                                max_size,
                            } => {
                                let (k, v) = self.hold(key, value);
                                Ret::MutTooLarge {
                                    k,
                                    v,
                                    old: old_entry_size,
                                    new: new_entry_size,
                                    max: max_size,
                                }
                            }
                        }
                    }
                }
            }
            Op::GetLru => {
                Ret::Entry(self.c().get_lru().map(|(k, v)| (ko(k, "get_lru"), vo(v, "get_lru"))))
            }
            Op::RemoveLru => {
                let r = self.c().remove_lru();
                Ret::Entry(r.map(|(k, v)| self.hold(k, v)))
            }
            Op::RemoveMru => {
                let r = self.c().remove_mru();
                Ret::Entry(r.map(|(k, v)| self.hold(k, v)))
            }
            Op::Clear => {
                self.c().clear();
                Ret::Unit
            }
            Op::SetMax { l } => {
                let v = u.limits[l as usize];
                self.c().set_max_size(v);
                Ret::Unit
            }
            Op::SetMaxRaw { v } => {
                self.c().set_max_size(v);
                Ret::Unit
            }
            Op::Retain { mask } => {
                self.c().retain(|k, v| {
                    SIDE.with(|s| s.borrow_mut().pred_calls.push((k.serial, v.serial)));
                    callback(Cb::Pred);
                    check_live(k.serial, true, "key passed to retain predicate");
                    check_live(v.serial, false, "value passed to retain predicate");
                    (mask >> (k.id.0 % 16)) & 1 == 1
                });
                Ret::Unit
            }
            Op::RetainMod { m, r } => {
                self.c().retain(|k, v| {
                    SIDE.with(|s| s.borrow_mut().pred_calls.push((k.serial, v.serial)));
                    callback(Cb::Pred);
                    check_live(k.serial, true, "key passed to retain predicate");
                    check_live(v.serial, false, "value passed to retain predicate");
                    k.id.0 % (m as u32) != r as u32
                });
                Ret::Unit
            }
            Op::Reserve { a } => {
                self.c().reserve(u.reserve_args[a as usize]);
                Ret::Unit
            }
            Op::TryReserve { a } => match self.c().try_reserve(u.reserve_args[a as usize]) {
                Ok(()) => Ret::ReserveOk,
                Err(e) => Ret::ReserveErr {
                    overflow: matches!(e, hashbrown::TryReserveError::CapacityOverflow),
                },
            },
            Op::ShrinkTo { m } => {
                let v = SHRINK_ARGS[m as usize];
                let v = if v == SHRINK_LEN { self.cr().len() } else { v };
                self.c().shrink_to(v);
                Ret::Unit
            }
            Op::ShrinkToFit => {
                self.c().shrink_to_fit();
                Ret::Unit
            }
            Op::CloneSwap => {
                let c2 = self.cr().clone();
                let old = self.cache.replace(c2);
                drop(old);
                Ret::Unit
            }
            Op::Peek { k, b } => {
                let r = if b {
                    self.cr().peek(&QKey(KeyId(k as u32))).map(|v| vo(v, "peek"))
                } else {
                    let p = TKey::new(k as u32, u.key_heap(k as u32));
                    self.cr().peek(&p).map(|v| vo(v, "peek"))
                };
                Ret::Val(r)
            }
            Op::PeekEntry { k, b } => {
                let r = if b {
                    self.cr().peek_entry(&QKey(KeyId(k as u32))).map(|(k, v)| (ko(k, "peek_entry"), vo(v, "peek_entry")))
                } else {
                    let p = TKey::new(k as u32, u.key_heap(k as u32));
                    self.cr().peek_entry(&p).map(|(k, v)| (ko(k, "peek_entry"), vo(v, "peek_entry")))
                };
                Ret::Entry(r)
            }
            Op::Contains { k, b } => {
                let r = if b {
                    self.cr().contains(&QKey(KeyId(k as u32)))
                } else {
                    let p = TKey::new(k as u32, u.key_heap(k as u32));
                    self.cr().contains(&p)
                };
                Ret::Bool(r)
            }
            Op::DebugFmt => Ret::Text(format!("{:?}", self.cr())),
            Op::ArmFuel { kind, idx } => {
                set_fuel(Some((CB_KINDS[kind as usize], idx as u32)));
                Ret::Unit
            }
            Op::DrainForget { n, bits } => {
                let mut got: Vec<Option<(TKey, TVal)>> = vec![];
                {
                    let mut d = self.c().drain();
                    for i in 0..n {
                        got.push(if (bits >> i) & 1 == 1 { d.next() } else { d.next_back() });
                    }
                    std::mem::forget(d);
                }
                let mut out = vec![];
                for g in got {
                    out.push(g.map(|(k, v)| self.hold(k, v)));
                }
                Ret::Drained(out)
            }
            Op::Drain { pat } => {
                let pat = u.drain_pats[pat as usize].clone();
                let mut got: Vec<Option<(TKey, TVal)>> = vec![];
                {
                    let mut d = self.c().drain();
                    for f in pat {
                        got.push(if f { d.next() } else { d.next_back() });
                    }
                }
                let mut out = vec![];
                for g in got {
                    out.push(g.map(|(k, v)| self.hold(k, v)));
                }
                Ret::Drained(out)
            }
        }
    }

    fn do_insert(&mut self, k: u16, kheap: usize, vheap: usize) -> Ret {
        let key = TKey::new(k as u32, kheap);
        let val = TVal::new(vheap);
        SIDE.with(|s| {
            let mut s = s.borrow_mut();
            s.in_k = key.serial;
            s.in_v = val.serial;
        });
        match self.c().insert(key, val) {
            Ok(old) => Ret::InsertOk(old.map(|v| self.hold_v(v))),
            Err(e) => {
                let _ = format!("{e}");
                match e {
                    InsertError::EntryTooLarge { key, value, entry_size, max_size } => {
                        let (k, v) = self.hold(key, value);
                        Ret::InsertTooLarge { k, v, entry_size, max_size }
                    }
                }
            }
        }
    }
}

// ---------------------------------------------------------------------------
// JSON encoding of operations (replay files)
// ---------------------------------------------------------------------------

use serde_json::{json, Value};

pub fn op_to_json(op: &Op) -> Value {
    match *op {
        Op::Insert { k, h } => json!({"t": "Insert", "k": k, "h": h}),
        Op::TryInsert { k, h } => json!({"t": "TryInsert", "k": k, "h": h}),
        Op::Get { k, b } => json!({"t": "Get", "k": k, "b": b}),
        Op::GetEntry { k, b } => json!({"t": "GetEntry", "k": k, "b": b}),
        Op::Touch { k, b } => json!({"t": "Touch", "k": k, "b": b}),
        Op::Remove { k, b } => json!({"t": "Remove", "k": k, "b": b}),
        Op::RemoveEntry { k, b } => json!({"t": "RemoveEntry", "k": k, "b": b}),
        Op::Mutate { k, h, b } => json!({"t": "Mutate", "k": k, "h": h, "b": b}),
        Op::GetLru => json!({"t": "GetLru"}),
        Op::RemoveLru => json!({"t": "RemoveLru"}),
        Op::RemoveMru => json!({"t": "RemoveMru"}),
        Op::Clear => json!({"t": "Clear"}),
        Op::SetMax { l } => json!({"t": "SetMax", "l": l}),
        Op::Retain { mask } => json!({"t": "Retain", "mask": mask}),
        Op::Reserve { a } => json!({"t": "Reserve", "a": a}),
        Op::TryReserve { a } => json!({"t": "TryReserve", "a": a}),
        Op::ShrinkTo { m } => json!({"t": "ShrinkTo", "m": m}),
        Op::ShrinkToFit => json!({"t": "ShrinkToFit"}),
        Op::CloneSwap => json!({"t": "CloneSwap"}),
        Op::Drain { pat } => json!({"t": "Drain", "pat": pat}),
        Op::SetMaxRaw { v } => json!({"t": "SetMaxRaw", "v": v as u64}),
        Op::InsertRaw { k, vheap } => json!({"t": "InsertRaw", "k": k, "vheap": vheap}),
        Op::RetainMod { m, r } => json!({"t": "RetainMod", "m": m, "r": r}),
        Op::Peek { k, b } => json!({"t": "Peek", "k": k, "b": b}),
        Op::PeekEntry { k, b } => json!({"t": "PeekEntry", "k": k, "b": b}),
        Op::Contains { k, b } => json!({"t": "Contains", "k": k, "b": b}),
        Op::DebugFmt => json!({"t": "DebugFmt"}),
        Op::ArmFuel { kind, idx } => json!({"t": "ArmFuel", "kind": kind, "idx": idx}),
        Op::DrainForget { n, bits } => json!({"t": "DrainForget", "n": n, "bits": bits}),
    }
}

pub fn op_from_json(v: &Value) -> Option<Op> {
    let t = v.get("t")?.as_str()?;
    let n = |f: &str| v.get(f).and_then(|x| x.as_u64());
    let b = |f: &str| v.get(f).and_then(|x| x.as_bool());
    Some(match t {
        "Insert" => Op::Insert { k: n("k")? as u16, h: n("h")? as u8 },
        "TryInsert" => Op::TryInsert { k: n("k")? as u16, h: n("h")? as u8 },
        "Get" => Op::Get { k: n("k")? as u16, b: b("b")? },
        "GetEntry" => Op::GetEntry { k: n("k")? as u16, b: b("b")? },
        "Touch" => Op::Touch { k: n("k")? as u16, b: b("b")? },
        "Remove" => Op::Remove { k: n("k")? as u16, b: b("b")? },
        "RemoveEntry" => Op::RemoveEntry { k: n("k")? as u16, b: b("b")? },
        "Mutate" => Op::Mutate { k: n("k")? as u16, h: n("h")? as u8, b: b("b")? },
        "GetLru" => Op::GetLru,
        "RemoveLru" => Op::RemoveLru,
        "RemoveMru" => Op::RemoveMru,
        "Clear" => Op::Clear,
        "SetMax" => Op::SetMax { l: n("l")? as u8 },
        "Retain" => Op::Retain { mask: n("mask")? as u16 },
        "Reserve" => Op::Reserve { a: n("a")? as u8 },
        "TryReserve" => Op::TryReserve { a: n("a")? as u8 },
        "ShrinkTo" => Op::ShrinkTo { m: n("m")? as u8 },
        "ShrinkToFit" => Op::ShrinkToFit,
        "CloneSwap" => Op::CloneSwap,
        "Drain" => Op::Drain { pat: n("pat")? as u8 },
        "SetMaxRaw" => Op::SetMaxRaw { v: n("v")? as usize },
        "InsertRaw" => Op::InsertRaw { k: n("k")? as u16, vheap: n("vheap")? as u32 },
        "RetainMod" => Op::RetainMod { m: n("m")? as u16, r: n("r")? as u16 },
        "Peek" => Op::Peek { k: n("k")? as u16, b: b("b")? },
        "PeekEntry" => Op::PeekEntry { k: n("k")? as u16, b: b("b")? },
        "Contains" => Op::Contains { k: n("k")? as u16, b: b("b")? },
        "DebugFmt" => Op::DebugFmt,
        "ArmFuel" => Op::ArmFuel { kind: n("kind")? as u8, idx: n("idx")? as u16 },
        "DrainForget" => Op::DrainForget { n: n("n")? as u8, bits: n("bits")? },
        _ => return None,
    })
}

pub fn config_to_json(c: &Config) -> Value {
    json!({"hasher": c.hk.name(), "cap": c.cap, "limit": c.limit as u64})
}

pub fn config_from_json(v: &Value) -> Option<Config> {
    Some(Config {
        hk: HK::parse(v.get("hasher")?.as_str()?)?,
        cap: v.get("cap").and_then(|x| x.as_u64()).map(|x| x as u32),
        limit: v.get("limit")?.as_u64()? as usize,
    })
}
